"""C11 - memory safety of the native engine: the ASan + UBSan + _GLIBCXX_ASSERTIONS build of the engine (compiled from the
working tree) is the implementation side; the lifecycle histories of C10 and whole runs of random valid scripts are executed
in child processes and any sanitizer / assertion report (or a death by signal) where the model predicts 'safe' is a violation."""
import random
import re

from . import core, sysgen, trajgen, engine_build, child, c10
from .core import g_float, g_list, g_bool

IMPORTS = "Sampling Lifecycle Safety AcceptC10 AcceptC11"


def report_of(o):
    if "crash" not in o:
        return None
    err = o.get("stderr", "")
    m = re.search(r"(ERROR: AddressSanitizer: [a-z-]+[^\n]*|runtime error: [^\n]+|Assertion [^\n]+failed[^\n]*|SUMMARY: [^\n]+)", err)
    return (m.group(1) if m else "process died with status %s" % o["crash"])[:300]


def make_run_case(rng):
    while True:
        c = c10.make_term_case(rng)
        # graphs with self-loops and parallel edges (what grid_to_graph makes of periodic axes of length 1 and 2); the time step is
        # tuned to the hops they add (an edge added to a graph without edges brings rates the first tuning never saw: Poisson means
        # beyond `int`, finding F20, and far beyond what F20's discriminator divides away)
        # networks of many reactions (tables and scratch buffers sized from the number of reactions): 9 to 40 of them now and then
        many = rng.random() < 0.12
        if many:
            labels = [s_["label"] for s_ in c["desc"]["species"]]
            while len(c["desc"]["reactions"]) < rng.choice([9, 12, 17, 24, 40]):
                r_ = sysgen.rand_reaction(rng, labels, c["desc"]["envs"])
                for key in ("kf", "kr"):
                    r_[key] = {"scalar": {"v": rng.choice([0.0, 0.25, 1.0]), "sys": ["µm", "s", "molecule"]}}
                c["desc"]["reactions"].append(r_)
        ne = len(c["desc"]["space"].get("edges", []))
        trajgen.add_multi_edges(rng, c["desc"])
        if (len(c["desc"]["space"].get("edges", [])) == ne and not many) or abs(trajgen.tune_time_step(c)) <= 40:
            break
    # empty tails of the request list, requests all at 0, a single request
    r = rng.random()
    if r < 0.15:
        c["t_sample"] = [0.0]
    elif r < 0.3:
        c["t_sample"] = [c["t_sample"][0]] if c["t_sample"] else [0.0]
    if rng.random() < 0.5:
        c["policy"] = "on_t_sample"
    # coarse leaps: a tau-leap step may overshoot and leave negative amounts, which the next propensities inherit
    if c["engine"] == "tauleap" and rng.random() < 0.4:
        k = 2.0 ** rng.randint(3, 6)
        c["dt"] *= k
        c["t_max"] = c["dt"] * rng.randint(3, 12)
        c["t_sample"] = [0.0, c["t_max"]]
        c["state"] = [float(rng.choice([0, 3, 6, 10, 20])) for _ in c["state"]]
        c["init"] = "none"
        c["style"] = "coarse_leap"
    # degenerate grids: periodic axes (lengths 1 and 2 occur by construction of small grids)
    sp = c["desc"]["space"]
    if sp["type"] == "grid" and rng.random() < 0.5:
        sp["per"] = [True, True, True]
    return c


def oracle_hist(it):
    o = it["obs"]
    name = "no out-of-bounds access, use after free, double free, undefined arithmetic or library-precondition violation"
    rep = report_of(o)
    if rep:
        return False, name + " [sanitizer build: %s]" % rep
    if "timeout" in o:
        return False, name + " [no return under the sanitizer build]"
    return True, name


def known_hist(it):
    if it.get("tag") == 64:
        return ("F13", "two engine objects share the process-global simulation: the lifecycle model predicts a use of a deleted simulation")
    return None


def check(run):
    rng = random.Random(run.seed)
    sysgen.POOLS["space"] = ["cm", "mm", "dmm", "cmm", "µm", "nm", "dm"]
    # (a) lifecycle histories
    L = 3 if run.tier == "quick" else 4
    hs = c10.enumerate_one(L)
    n1, n2 = (150, 80) if run.tier == "quick" else (3000, 2000)
    hs += [c10.random_history(rng, False, rng.randint(4, 14)) for _ in range(n1)]
    hs += [c10.random_history(rng, True, rng.randint(3, 10)) for _ in range(n2)]
    items = c10.build_items(hs, None, sanitize=True)
    for it in items:
        clean = report_of(it["obs"]) is None and "timeout" not in it["obs"]
        it["gobs"] = g_bool(clean)
        run.count("history_objects:%d" % len(set(k[1] for k in it["case"]["history"])))
        run.count("history_observed:" + ("clean" if clean else "report"))
    core.decide(run, items, IMPORTS, "accept_C11_history", oracle_hist, known=known_hist, shard=400)
    # (b) whole runs
    nr = 300 if run.tier == "quick" else 6000
    cases = [make_run_case(rng) for _ in range(nr)]
    ritems = c10.term_items(cases, None, sanitize=True)
    keep = []
    for it in ritems:
        c, o = it["case"], it["obs"]
        if "timeout" in o and c10.known_term(it):
            run.count("run_discarded_known_hang_F20")
            continue
        clean = report_of(o) is None and "timeout" not in o
        it["gcase"] = g_list([g_float(v) for v in c["t_sample"]])
        it["gobs"] = g_bool(clean)
        run.count("run:%s:%s:%s" % (c["engine"], c["desc"]["space"]["type"], c["policy"]))
        run.count("run_init:" + c["init"])
        run.count("run_observed:" + ("clean" if clean else "report"))
        keep.append(it)
    core.decide(run, keep, IMPORTS, "accept_C11_run", oracle_hist, shard=400)
    # (c) sequences of simulate_script calls on one or two engine objects (Model/Simulate.v: predicted safe, theorem C10_simulate_sequence)
    nsim = 60 if run.tier == "quick" else 1200
    scases = [c10.make_simulate_case(rng) for _ in range(nsim)]
    sitems = c10.simulate_items(scases, sanitize=True)
    for it in sitems:
        hist = []
        for o, k, pr in it["case"]["invocations"]:
            hist += [["setup", o, k], ["iterate_n", o, 1001]] + ([["progress", o, None]] if pr else []) + [["get_output", o, None], ["finalize", o, None]]
        it["gcase"] = c10.emit({"history": hist}, {})[0]
        clean = report_of(it["obs"]) is None and "timeout" not in it["obs"] and "error" not in it["obs"]
        it["gobs"] = g_bool(clean)
        run.count("simulate_sequences_observed:" + ("clean" if clean else "report"))
    core.decide(run, sitems, IMPORTS, "accept_C11_history", oracle_hist, shard=200)
    run.rule = ("sanitizer build (g++ -O1 -fsanitize=address,undefined -D_GLIBCXX_ASSERTIONS) of the engine from the working tree, loaded in "
                "child processes with LD_PRELOAD of the ASan/UBSan runtimes: (a) all lifecycle-respecting one-object histories up to %d calls, "
                "random histories over one and two objects (those on which the lifecycle model predicts undefined behaviour - only possible "
                "with two objects, F13 - are not judged); (b) %d whole runs of random valid scripts: three engines, grid and graph, four "
                "policies incl. request lists with empty tails / a single request, four init_state_processing modes, amounts below one "
                "molecule and above 100, periodic axes of length 1 and 2, isolated nodes; each run also calls iterate after completion, "
                "get_output twice and finalize twice; (c) %d sequences of 1-4 simulate_script calls on one or two engine objects. A sanitizer or assertion report, a death by signal or a hang is a violation. "
                "non-trivial = every case (each executes the engine)" % (L, nr, nsim))


def replay(run, payload):
    sysgen.POOLS["space"] = ["cm", "mm", "dmm", "cmm", "µm", "nm", "dm"]
    if payload["correspondence"] == "accept_C11_history":
        items = c10.build_items([payload["case"]["history"]], None, sanitize=True)
        for it in items:
            it["gobs"] = g_bool(report_of(it["obs"]) is None and "timeout" not in it["obs"])
        core.decide(run, items, IMPORTS, "accept_C11_history", oracle_hist, known=known_hist)
    else:
        items = c10.term_items([payload["case"]], None, sanitize=True)
        for it in items:
            it["gcase"] = g_list([g_float(v) for v in it["case"]["t_sample"]])
            it["gobs"] = g_bool(report_of(it["obs"]) is None and "timeout" not in it["obs"])
        core.decide(run, items, IMPORTS, "accept_C11_run", oracle_hist)
