"""C01 - deterministic rate law: engine tables, kinetics functions, exported ODE right-hand side and
Euler engine samples against the rate law of the model (shared by C03's deterministic part)."""
import math
import random
from fractions import Fraction as Fr

from . import core, si, sysgen, engine_build, child
from .core import g_float, g_list, g_z, g_nat, g_bool

IMPORTS = "Units Grid System Engine EngineBuild AcceptC06 AcceptC05 AcceptC01"


def finite(xs):
    return all(math.isfinite(float(v)) for v in xs)


def split_reactions(net):
    out = []
    for r in net.reactions:
        rf, rr = r.split()
        out += [rf, rr]
    return out


def make_case(rng, steps=2, space_kind=None, chem=True, max_cells=6):
    desc = sysgen.rand_desc(rng, max_species=3, max_cells=max_cells, reactions=True, space_kind=space_kind, cubic=True)
    n, ns = sysgen.ncells(desc), len(desc["species"])
    state = [rng.choice([0.0, 1.0, 2.0, 5.0, 0.5, 12.0, 3.25]) for _ in range(n * ns)]
    su = sysgen.rand_sys(rng)
    chs = [bool(chem and rng.random() < 0.25) for _ in range(n * ns)]
    ue = sysgen.rand_sys(rng)
    dt = rng.choice([1.0, 0.5, 0.25, 0.125, 0.0625]) * 2.0 ** -rng.randint(0, 6)
    return {"desc": desc, "state": state, "state_units": su, "chs": chs, "ue": ue, "dt": dt, "steps": steps}


def observe(c, want=("tables", "dstate", "dxdtf", "euler")):
    import strengths
    import strengths.kinetics as kin
    import strengths.librdengine as lib
    U = strengths.units
    desc = c["desc"]
    o = {}
    state = U.UnitArray(list(c["state"]), U.Units(sysgen.py_sys(U, c["state_units"]), U.UnitsDimensions(quantity=1)))
    kw = {} if c.get("chs_from_species") else {"chemostats": [int(b) for b in c["chs"]]}     # else: the species' own flags decide
    system = sysgen.build_system(strengths, desc, state=state, **kw)
    ue = sysgen.py_sys(U, c["ue"])
    reactions = split_reactions(system.network)
    if "tables" in want:
        o["k"] = [float(v) for v in lib.build_reaction_rate_constant_matrix(reactions, system.network.environments, ue)]
        o["sub"] = [int(v) for v in lib.build_substrate_stoechiometric_matrix(system.network.species, reactions)]
        o["sto"] = [int(v) for v in lib.build_stoechiometric_difference_matrix(system.network.species, reactions)]
        o["D"] = [float(v) for v in lib.build_diff_coef_environment_matrix(system.network.species, system.network.environments, ue)]

    def attempt(f):
        try:
            return f()
        except Exception as e:
            return "raise:%s:%s" % (type(e).__name__, str(e)[:80])
    if "dstate" in want:
        def ds():
            r = kin.compute_dstatedt(system, state, apply_chemostats=False, units_system=ue)
            return [[float(v) for v in r.value], si.sys_of(r.units.sys), si.dim_of(r.units.dim)]
        o["dstate"] = attempt(ds)
    if "dstate_chs" in want:
        o["dstate_chs"] = attempt(lambda: [float(v) for v in kin.compute_dstatedt(system, state, apply_chemostats=True, units_system=ue).convert(ue).value])
    o["dxdtf"] = None
    if "dxdtf" in want and sysgen.ncells(desc) == 1:
        x = [float(v) for v in state.convert(ue).value]
        o["dxdtf"] = attempt(lambda: [float(v) for v in system.make_dxdtf(ue)(0, x)])
    o["euler"] = []
    if "euler" in want:
        def eu():
            tu = U.Units(ue, U.UnitsDimensions(time=1))
            dt = U.UnitValue(c["dt"], tu)
            tr = strengths.simulate(system, t_sample=U.UnitArray([0.0], tu), engine=engine_build.engine("euler"),
                                    time_step=dt, sampling_policy="on_iteration", t_max=U.UnitValue(c["dt"] * (c["steps"] - 0.5), tu),
                                    units_system=ue)
            data = [float(v) for v in tr.data.value]
            size = len(c["state"])
            if si.sys_of(tr.data.units.sys) != tuple(c["ue"]):
                raise RuntimeError("trajectory not in the requested units")
            return [data[k * size:(k + 1) * size] for k in range(len(data) // size)]
        o["euler"] = attempt(eu)
    return o


def g_case(c):
    desc = c["desc"]
    edges = g_list([sysgen.g_qty(q, u, sysgen.DIMS["distance"]) for q, u in sysgen.edge_list(desc)])
    return ("{| c_sys := %s; c_ue := %s; c_edges := %s; c_state := {| st_v := %s; st_u := %s |}; c_chs := %s; c_dt := %s; c_steps := %s |}" % (
        sysgen.g_system(desc), si.g_usys(c["ue"]), edges, g_list([g_float(v) for v in c["state"]]), si.g_usys(c["state_units"]),
        g_list([g_bool(b) for b in c["chs"]]), g_float(c["dt"]), g_nat(c["steps"])))


def emit(c, o):
    def opt_list(v):
        if v is None:
            return "None"
        if isinstance(v, str):
            return "(Some [])" if False else "(Some [%s])" % g_float(1e300)     # a raise is never accepted
        return "(Some %s)" % g_list([g_float(x) for x in v])
    if isinstance(o["dstate"], str):
        gds = "None"
    else:
        gds = "(Some (%s, %s, %s))" % (g_list([g_float(x) for x in o["dstate"][0]]), si.g_usys(o["dstate"][1]), si.g_dim(o["dstate"][2]))
    eul = o["euler"] if not isinstance(o["euler"], str) else [[1e300]]
    go = ("{| o_k := %s; o_sub := %s; o_sto := %s; o_D := %s; o_dstate := %s; o_dstate_chs := %s; o_dxdtf := %s; o_euler := %s |}" % (
        g_list([g_float(x) for x in o["k"]]), g_list([g_z(x) for x in o["sub"]]), g_list([g_z(x) for x in o["sto"]]),
        g_list([g_float(x) for x in o["D"]]), gds, opt_list(o.get("dstate_chs")), opt_list(o["dxdtf"]),
        g_list([g_list([g_float(x) for x in row]) for row in eul])))
    return "(%s)" % g_case(c), "(%s)" % go


# ------------------------------------------------------------------------------ independent oracle (SI, brute force)
def _in_env(ev, env):
    if "scalar" in ev:
        return ev["scalar"]
    d = dict((k, v) for k, v in ev["dict"])
    return d.get(env, d.get("default"))


def _si(q, owner, dim):
    if q is None:
        return Fr(0)
    v, s, d = sysgen.qty_resolved(q, owner, dim)
    return Fr(v) * si.si_scale(s, d)


def si_rate_law(c, apply_chs=False):
    """SI value of the derivative of every (species, cell) entry, computed from the statement of C01."""
    desc = c["desc"]
    sp = desc["space"]
    n, ns = sysgen.ncells(desc), len(desc["species"])
    x = [Fr(v) * si.si_scale(c["state_units"], (0, 0, 1)) for v in c["state"]]
    if sp["type"] == "grid":
        envs = sp["env"]
        hs = [_si(sp["edge"], sp["units"], (1, 0, 0))] * n
    else:
        envs = [nd["env"] for nd in sp["nodes"]]
        hs = [_si(nd["edge"], nd["units"], (1, 0, 0)) for nd in sp["nodes"]]
    V = [h ** 3 for h in hs]
    labels = [s["label"] for s in desc["species"]]
    # neighbours with multiplicity: (j, surface, distance)
    nb = [[] for _ in range(n)]
    if sp["type"] == "grid":
        dims = (sp["w"], sp["h"], sp["d"])
        for i in range(n):
            ci = (i % dims[0], (i // dims[0]) % dims[1], i // (dims[0] * dims[1]))
            for ax in range(3):
                for step in (1, -1):
                    t = list(ci)
                    t[ax] += step
                    if sp["per"][ax]:
                        t[ax] %= dims[ax]
                    if 0 <= t[ax] < dims[ax]:
                        j = t[2] * dims[0] * dims[1] + t[1] * dims[0] + t[0]
                        if j != i:
                            nb[i].append((j, hs[i] ** 2, hs[i]))
    else:
        for e in sp["edges"]:
            sf, ds = _si(e["surface"], e["units"], (2, 0, 0)), _si(e["distance"], e["units"], (1, 0, 0))
            nb[e["i"]].append((e["j"], sf, ds))
            nb[e["j"]].append((e["i"], sf, ds))
    out = []
    for s_i, s in enumerate(desc["species"]):
        for i in range(n):
            env = desc["envs"][envs[i]]
            d = Fr(0)
            for r in desc["reactions"]:
                for (sub, prod, kq) in ((r["sub"], r["prod"], r["kf"]), (r["prod"], r["sub"], r["kr"])):
                    order = sum(sub.values())
                    k = _si(_in_env(kq, env), r["units"], sysgen.kdim(order))
                    rate = k * V[i]
                    for l, cf in sub.items():
                        rate *= (x[labels.index(l) * n + i] / V[i]) ** cf
                    d += (prod.get(s["label"], 0) - sub.get(s["label"], 0)) * rate
            for (j, sf, ds) in nb[i]:
                Di = _si(_in_env(s["D"], env), s["units"], (2, -1, 0))
                Dj = _si(_in_env(s["D"], desc["envs"][envs[j]]), s["units"], (2, -1, 0))
                if Di != 0 and Dj != 0:
                    Dint = (hs[i] + hs[j]) / (hs[i] / Di + hs[j] / Dj)
                    d += Dint * sf / ds * (x[s_i * n + j] / V[j] - x[s_i * n + i] / V[i])
            if apply_chs and c["chs"][s_i * n + i]:
                d = Fr(0)
            out.append(d)
    return out, x


def oracle(it):
    c, o = it["case"], it["obs"]
    name = "derivative of every entry = mass action + Bernstein diffusion (SI), dimension amount/time; kinetics, exported ODE and Euler step agree"
    if isinstance(o["dstate"], str):
        return False, name + " [compute_dstatedt raised: %s]" % o["dstate"]
    exp, x = si_rate_law(c)
    vs, u, d = o["dstate"]
    if tuple(d) != (0, -1, 1) or len(vs) != len(exp):
        return False, name + " [dimension / length]"
    sc = si.si_scale(u, d)
    scale_ref = max([abs(e) for e in exp] + [Fr(0)])
    for e, g in zip(exp, vs):
        if abs(Fr(g) * sc - e) > Fr(1, 10**6) * max(abs(e), scale_ref * Fr(1, 10**3)):
            return False, name + " [kinetics value]"
    if isinstance(o["euler"], str):
        return False, name + " [engine raised: %s]" % o["euler"]
    if len(o["euler"]) >= 2 and not any(c["chs"]):
        a = si.si_scale(c["ue"], (0, 0, 1))
        dt = Fr(c["dt"]) * si.SI_TIME[c["ue"][1]]
        for k in range(len(exp)):
            got = (Fr(o["euler"][1][k]) - Fr(o["euler"][0][k])) * a / dt
            if abs(got - exp[k]) > Fr(1, 10**5) * max(abs(exp[k]), scale_ref * Fr(1, 10**3), abs(x[k]) / dt * Fr(1, 10**6)):
                return False, name + " [Euler step]"
    return None, name          # the looser, model-independent formulation found nothing


def observe_child(c):
    return observe(c, tuple(c["want"]))


def build_items(cases, run=None, want=("tables", "dstate", "dxdtf", "euler")):
    """observations are made in child processes: an engine that crashes or hangs is an observation ("raise:crash"), not the end of the check"""
    engine_build.build(False)
    obs = child.map_children("c01", "observe_child", [dict(c, want=list(want)) for c in cases], timeout=60, confirm=True)
    bad = [k for k, o in enumerate(obs) if "timeout" in o or "crash" in o or "error" in o]
    if bad:
        rest = child.map_children("c01", "observe_child", [dict(cases[k], want=[w for w in want if w != "euler"]) for k in bad], timeout=60, confirm=True)
        for k, o2 in zip(bad, rest):
            if "timeout" in o2 or "crash" in o2 or "error" in o2:
                raise RuntimeError("observation without the native engine failed: %r" % (o2,))
            o2["euler"] = "raise:" + ("timeout" if "timeout" in obs[k] else "crash" if "crash" in obs[k] else "error:" + str(obs[k].get("error"))[:60])
            obs[k] = o2
    items = []
    for c, o in zip(cases, obs):
        try:
            gc, go = emit(c, o)
        except ValueError:
            if run:
                run.count("discarded_nonfinite")
            continue
        items.append({"case": c, "obs": o, "gcase": gc, "gobs": go})
    return items


KNOWN = {}


def known(it):
    return None


def check(run):
    rng = random.Random(run.seed)
    n = 220 if run.tier == "quick" else 4000
    sysgen.POOLS["space"] = ["cm", "mm", "dmm", "cmm", "µm", "nm", "dm"]
    cases = [make_case(rng, steps=1, max_cells=(6 if run.tier == "quick" else 12)) for _ in range(n)]
    items = build_items(cases, run)
    for it in items:
        d = it["case"]["desc"]
        run.count("space:" + d["space"]["type"])
        run.count("reactions:%d" % len(d["reactions"]))
        run.count("cells:%d" % sysgen.ncells(d))
        for r in d["reactions"]:
            run.count("order:%d" % sum(r["sub"].values()))
    run.rule = ("random systems: 1-3 species, 0-3 reversible reactions with orders 0..4 per side (empty sides, repeated species), 1-3 "
                "environments with scalar / per-environment ('default', omissions, zeros) kf, kr, D, density; grids up to 6 (12) cells with all "
                "boundary mixes incl. periodic axes of length 1 and 2, graphs of 1-6 (12) nodes with per-node cubic volumes and per-node / per-edge "
                "units; random states, chemostat maps and engine unit systems. Observed: the four public build_*_matrix functions, "
                "compute_dstatedt without chemostats (value, units, dimension), make_dxdtf on single-cell systems, samples 0 and 1 of the "
                "freshly compiled Euler engine. non-trivial = at least one reaction or one neighbour")
    for it in items:
        d = it["case"]["desc"]
        it["nontrivial"] = bool(d["reactions"]) or sysgen.ncells(d) > 1
    core.decide(run, items, IMPORTS, "accept_C01", oracle, known=known, shard=20)


def replay(run, payload):
    sysgen.POOLS["space"] = ["cm", "mm", "dmm", "cmm", "µm", "nm", "dm"]
    items = build_items([payload["case"]])
    core.decide(run, items, IMPORTS, "accept_C01", oracle, known=known)
