"""Translator (fail-closed): the key tables of the package's dictionary readers and writers, read from /repo's *current* source
with `ast` on every run, and written as Model/Schemas.v.  The theorems of Props/C12.v about these tables (no key belongs to two
fields, every written key is the primary key of a field its reader knows, every key a reader looks up is a primary key, every
field a reader accepts is looked up) are closed by vm_compute over the generated tables, so they are re-checked against what the
code says now; harness/c12.py and c20.py take their alias lists from here too.

For every reader `<x>_from_dict`: the literal list of synonym lists passed to process_input_dict_keys, and the string keys the
function looks up in the processed dictionary afterwards (`"k" in d`, `d["k"]`, `d.get("k", ...)`, plus "units" when it calls
retrive_units_system_from_dict).  For every writer `<x>_to_dict`: the string keys of the dictionary literal it builds and of later
`d["k"] = ...` assignments.  Anything else in these places (a computed key, a non-literal synonym table, a missing function) is a
translation failure, reported as a broken proof obligation."""
import ast
import os
from pathlib import Path

REPO = Path(os.environ.get("VERIF_REPO", "/repo"))
OUT = Path(__file__).resolve().parent.parent / "coq" / "Model" / "Schemas.v"

# kind -> (file, reader, writer)
KINDS = [
    ("species", "rdnetwork.py", "species_from_dict", "species_to_dict"),
    ("reaction", "rdnetwork.py", "reaction_from_dict", "reaction_to_dict"),
    ("network", "rdnetwork.py", "rdnetwork_from_dict", "rdnetwork_to_dict"),
    ("grid", "rdgridspace.py", "rdgridspace_from_dict", "rdgridspace_to_dict"),
    ("node", "rdgraphspace.py", "rdgraphspacenode_from_dict", "rdgraphspacenode_to_dict"),
    ("edge", "rdgraphspace.py", "rdgraphspaceedge_from_dict", "rdgraphspaceedge_to_dict"),
    ("graph", "rdgraphspace.py", "rdgraphspace_from_dict", "rdgraphspace_to_dict"),
    ("system", "rdsystem.py", "rdsystem_from_dict", "rdsystem_to_dict"),
    ("script", "rdscript.py", "rdscript_from_dict", "rdscript_to_dict"),
    ("unitssystem", "units.py", "unitssystem_from_dict", "unitssystem_to_dict"),
    ("unitsdimensions", "units.py", "unitsdimensions_from_dict", "unitsdimensions_to_dict"),
    ("unitarray", "units.py", "unitarray_from_dict", "unitarray_to_dict"),
    # no synonym table here: the loader indexes the parsed JSON object directly; every key it looks up is a field of its own
    ("trajectory", "rdoutput.py", "load_rdtrajectory", "save_rdtrajectory"),
]
PLAIN_READERS = {"load_rdtrajectory": "json.load"}      # reader -> the call whose result is the dictionary
# the kinds of the original nine object readers (names used by the Coq development and by c12 / c20)
OBJECT_KINDS = ["species", "reaction", "network", "grid", "node", "edge", "graph", "system", "script"]


class TranslateError(Exception):
    pass


def _functions(path):
    try:
        tree = ast.parse(path.read_text(encoding="utf-8"))
    except (OSError, SyntaxError) as e:
        raise TranslateError("%s: %s" % (path, e))
    return {n.name: n for n in ast.walk(tree) if isinstance(n, ast.FunctionDef)}


def _const_str(n, where):
    if isinstance(n, ast.Constant) and isinstance(n.value, str):
        return n.value
    raise TranslateError("%s: expected a string literal, found %s" % (where, ast.dump(n)[:80]))


def _uses(fn, var, where):
    uses = []

    def add(k):
        if k not in uses:
            uses.append(k)
    for n in ast.walk(fn):
        if isinstance(n, ast.Compare) and len(n.ops) == 1 and isinstance(n.ops[0], (ast.In, ast.NotIn)) \
                and isinstance(n.comparators[0], ast.Name) and n.comparators[0].id == var:
            add(_const_str(n.left, where + " (membership test)"))
        elif isinstance(n, ast.Subscript) and isinstance(n.value, ast.Name) and n.value.id == var:
            add(_const_str(n.slice, where + " (subscript)"))
        elif isinstance(n, ast.Call) and isinstance(n.func, ast.Attribute) and isinstance(n.func.value, ast.Name) \
                and n.func.value.id == var:
            if n.func.attr in ("get", "pop"):
                add(_const_str(n.args[0], where + " (.%s)" % n.func.attr))
            else:
                raise TranslateError("%s: unexpected method %s of the processed dictionary" % (where, n.func.attr))
        elif isinstance(n, ast.Call):
            f = n.func
            name = f.attr if isinstance(f, ast.Attribute) else getattr(f, "id", None)
            if name == "retrive_units_system_from_dict":
                add("units")
    return uses


def _plain_reader(fn, call, where):
    """a loader without key processing: the dictionary is the result of `call` (e.g. json.load); one field per key looked up"""
    var = None
    for n in ast.walk(fn):
        if isinstance(n, ast.Assign) and isinstance(n.value, ast.Call) and len(n.targets) == 1 and isinstance(n.targets[0], ast.Name):
            f = n.value.func
            name = (getattr(f.value, "id", "") + "." + f.attr) if isinstance(f, ast.Attribute) else getattr(f, "id", None)
            if name == call:
                if var is not None:
                    raise TranslateError("%s: %s called twice" % (where, call))
                var = n.targets[0].id
    if var is None:
        raise TranslateError("%s: no dictionary obtained from %s" % (where, call))
    uses = sorted(_uses(fn, var, where))          # alphabetical: independent of the order of the loader's statements
    if not uses:
        raise TranslateError("%s: the loader looks up no key" % where)
    return [[k] for k in uses], uses


def _reader(fn, where):
    """(synonyms, looked-up keys, name of the processed dictionary variable)"""
    syn, var = None, None
    for n in ast.walk(fn):
        if isinstance(n, ast.Assign) and isinstance(n.value, ast.Call):
            f = n.value.func
            name = f.attr if isinstance(f, ast.Attribute) else getattr(f, "id", None)
            if name == "process_input_dict_keys":
                if syn is not None:
                    raise TranslateError("%s: process_input_dict_keys called twice" % where)
                if len(n.targets) != 1 or not isinstance(n.targets[0], ast.Name):
                    raise TranslateError("%s: result of process_input_dict_keys not bound to a name" % where)
                var = n.targets[0].id
                args = list(n.value.args) + [k.value for k in n.value.keywords if k.arg == "synonyms"]
                if len(args) < 2 or not isinstance(args[1], ast.List):
                    raise TranslateError("%s: synonym table is not a literal list" % where)
                if any(k.arg == "policy" for k in n.value.keywords) or len(n.value.args) > 2:
                    raise TranslateError("%s: a key policy other than the default is passed" % where)
                syn = []
                for row in args[1].elts:
                    if not isinstance(row, ast.List) or not row.elts:
                        raise TranslateError("%s: synonym row is not a non-empty literal list" % where)
                    syn.append([_const_str(e, where) for e in row.elts])
    if syn is None:
        raise TranslateError("%s: no call of process_input_dict_keys" % where)
    return syn, _uses(fn, var, where)


def _writer(fn, where):
    keys, var = None, None
    for n in fn.body:
        if isinstance(n, ast.Assign) and isinstance(n.value, ast.Dict) and len(n.targets) == 1 and isinstance(n.targets[0], ast.Name):
            if keys is not None:
                raise TranslateError("%s: two dictionary literals" % where)
            var = n.targets[0].id
            keys = [_const_str(k, where) for k in n.value.keys]
        elif isinstance(n, ast.Return) and isinstance(n.value, ast.Dict):
            if keys is not None:
                raise TranslateError("%s: two dictionary literals" % where)
            keys = [_const_str(k, where) for k in n.value.keys]
    if keys is None:
        raise TranslateError("%s: no dictionary literal bound to a name or returned at the top level of the writer" % where)
    for n in ast.walk(fn):
        if isinstance(n, ast.Assign):
            for t in n.targets:
                if isinstance(t, ast.Subscript) and isinstance(t.value, ast.Name) and t.value.id == var:
                    k = _const_str(t.slice, where + " (assignment)")
                    if k not in keys:
                        keys.append(k)
    return keys


def extract(repo=None):
    root = (Path(repo) if repo else REPO) / "src" / "strengths"
    out, cache = {}, {}
    for kind, fname, rd, wr in KINDS:
        if fname not in cache:
            cache[fname] = _functions(root / fname)
        fs = cache[fname]
        if rd not in fs or wr not in fs:
            raise TranslateError("%s: %s / %s not found" % (fname, rd, wr))
        if rd in PLAIN_READERS:
            syn, uses = _plain_reader(fs[rd], PLAIN_READERS[rd], "%s:%s" % (fname, rd))
        else:
            syn, uses = _reader(fs[rd], "%s:%s" % (fname, rd))
        out[kind] = {"synonyms": syn, "uses": uses, "writer": _writer(fs[wr], "%s:%s" % (fname, wr))}
    # the key read before the space readers are entered (rdspace_from_dict dispatches on it)
    sp = _functions(root / "rdspace.py").get("rdspace_from_dict")
    if sp is None:
        raise TranslateError("rdspace.py: rdspace_from_dict not found")
    disp = []
    for n in ast.walk(sp):
        if isinstance(n, ast.Call) and isinstance(n.func, ast.Attribute) and n.func.attr == "get" and n.args \
                and isinstance(n.args[0], ast.Constant) and isinstance(n.args[0].value, str):
            disp.append(n.args[0].value)
        elif isinstance(n, ast.Subscript) and isinstance(n.slice, ast.Constant) and isinstance(n.slice.value, str):
            disp.append(n.slice.value)
    out["_dispatch"] = sorted(set(disp))
    return out


def aliases(data=None):
    data = data or extract()
    return {k: v["synonyms"] for k, v in data.items() if not k.startswith("_")}


def _cp(s):
    return "[" + "; ".join(str(ord(c)) for c in s) + "]"


def _strs(l):
    return "[" + "; ".join(_cp(s) for s in l) + "]"


def emit(data):
    o = ["(* GENERATED on every run by harness/translate_schemas.py from /repo/src/strengths/*.py (ast): the synonym tables of the",
         "   *_from_dict readers, the keys each reader looks up, the keys each *_to_dict writer emits.  Do not edit. *)",
         "From Coq Require Import NArith.", "From Verif Require Import Num ReactionText.", "Open Scope N_scope.", "",
         "Definition schema := list (list str).        (* one list of synonyms per field; the first is the key the writers use *)", ""]
    kinds = [k for k in data if not k.startswith("_")]
    for k in kinds:
        rows = ["   %s   (* %s *)" % (_strs(r), " | ".join(r)) for r in data[k]["synonyms"]]
        o.append("Definition schema_%s : schema :=\n  [%s].\n" % (k, ";\n".join(rows).lstrip()))
    for k in kinds:
        o.append("Definition writer_%s : list str := %s.   (* %s *)\n" % (k, _strs(data[k]["writer"]), " ".join(data[k]["writer"])))
    for k in kinds:
        o.append("Definition uses_%s : list str := %s.   (* %s *)\n" % (k, _strs(data[k]["uses"]), " ".join(data[k]["uses"])))
    o.append("Definition dispatch_keys : list str := %s.   (* read by rdspace_from_dict before a space reader is entered: %s *)\n" % (
        _strs(data["_dispatch"]), " ".join(data["_dispatch"])))
    o.append("Definition all_schemas : list schema := [%s].\n" % "; ".join("schema_" + k for k in kinds))
    o.append("Definition writers_and_readers : list (list str * schema) := [%s].\n" % "; ".join("(writer_%s, schema_%s)" % (k, k) for k in kinds))
    o.append("Definition uses_and_readers : list (list str * schema) := [%s].\n" % "; ".join("(uses_%s, schema_%s)" % (k, k) for k in kinds))
    return "\n".join(o)


STATUS = {"error": None, "changed": False}


def regenerate():
    """rewrite Model/Schemas.v when the source says something else than the file; returns the error text or None"""
    try:
        text = emit(extract())
    except TranslateError as e:
        STATUS["error"] = str(e)
        return STATUS["error"]
    if not OUT.exists() or OUT.read_text() != text:
        OUT.write_text(text)
        STATUS["changed"] = True
    STATUS["error"] = None
    return None


if __name__ == "__main__":
    import json
    print(json.dumps(extract(), indent=1))
