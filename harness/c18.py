"""C18 - unit and quantity text: print/parse round trip, SI meaning of the grammar, rejection of text outside it."""
import math
import random
import struct
from fractions import Fraction as Fr

from . import core, si
from .core import g_list, g_bool, g_z

IMPORTS = "Units ReactionText UnitText AcceptC06 AcceptC18"
SYMS = si.SPACE + si.TIME + si.AMOUNT + si.VOLUME + si.MOLAR
U_SPELLING = {"µm": "um", "µs": "us", "µmol": "umol", "µL": "uL", "µM": "uM"}


def g_str(s):
    return "[" + "; ".join("%d%%N" % ord(c) for c in s) + "]"


def g_ud(u):
    return "({| us := %s; ut := %s; uq := %s |}, %s)" % (si.C_SPACE[u[0][0]], si.C_TIME[u[0][1]], si.C_AMOUNT[u[0][2]], si.g_dim(u[1]))


def observe_units(s):
    import strengths.units as U
    try:
        u = U.parse_units(s)
        return {"units": [list(si.sys_of(u.sys)), list(si.dim_of(u.dim))]}
    except Exception as e:
        return {"raised": "%s: %s" % (type(e).__name__, str(e)[:60])}


def observe_print(c):
    import strengths.units as U
    u = U.Units(U.UnitsSystem(space=c[0][0], time=c[0][1], quantity=c[0][2]), U.UnitsDimensions(space=c[1][0], time=c[1][1], quantity=c[1][2]))
    text = str(u)
    try:
        b = U.parse_units(text)
        back = [list(si.sys_of(b.sys)), list(si.dim_of(b.dim))]
        eq = bool(u == b)
    except Exception:
        back, eq = None, False
    return {"text": text, "back": back, "eq": eq}


def observe_value(s):
    import strengths.units as U
    try:
        v = U.UnitValue(s)
        return {"units": [list(si.sys_of(v.units.sys)), list(si.dim_of(v.units.dim))], "value": float(v.value).hex()}
    except Exception as e:
        return {"raised": "%s: %s" % (type(e).__name__, str(e)[:60])}


def float_ok(tok):
    try:
        float(tok)
        return True
    except Exception:
        return False


# ------------------------------------------------------------------------------ generators
def rand_factor(rng, sym=None):
    sym = sym or rng.choice(SYMS)
    if sym in U_SPELLING and rng.random() < 0.4:
        sym = U_SPELLING[sym]
    e = rng.choice([None, None, 1, 2, 3, -1, -2, -3, 9, -9, 0, 12])
    return sym + ("" if e is None else str(e))


def rand_unit_string(rng):
    n = rng.choice([1, 1, 2, 2, 3])
    s = rand_factor(rng)
    for _ in range(n - 1):
        s += rng.choice([".", "/"]) + rand_factor(rng)
    return s


MALFORM = [
    lambda r, s: s.replace(".", "..", 1) if "." in s else s + ".",
    lambda r, s: s + r.choice([".", "/"]),
    lambda r, s: r.choice([".", "/"]) + s,
    lambda r, s: s.replace("-", "+", 1) if "-" in s else s + "+2",
    lambda r, s: s + r.choice([".5", "2.5", "1e2"]),
    lambda r, s: r.choice(["2", "-1"]) + s,
    lambda r, s: s[:max(1, len(s) // 2)] + " " + s[max(1, len(s) // 2):],
    lambda r, s: s + " ",
    lambda r, s: " " + s,
    lambda r, s: s + r.choice(["2 ", " 2", "2 .s", "-1 /s"]),
    lambda r, s: s + r.choice(["1_0", "2_", "٣", "2٣", "²"]),
    lambda r, s: s + "." + r.choice(["xm", "sec", "mole", "l", "Mol", "µ", "u", "mo l", ""]),
    lambda r, s: s + "-",
    lambda r, s: s + "--2",
    lambda r, s: s.upper(),
    lambda r, s: s + "." + r.choice(["m.cm", "s/min", "mol.molecule", "L.m", "M.mm", "mM.µM"]),
]


def rand_doubles(rng, n):
    out = [0.0, -0.0, 1.0, 1e-05, 1e-5, 1e5, 1e16, 1e22, 1e23, 123456789.125, 5e-324, 2.2250738585072014e-308, 1.7976931348623157e308, 0.1, 1 / 3]
    while len(out) < n:
        x = struct.unpack("<d", struct.pack("<Q", rng.getrandbits(64)))[0]
        if math.isfinite(x):
            out.append(x)
    return out


def check(run):
    core.use_repo()
    rng = random.Random(run.seed)
    quick = run.tier == "quick"
    # (a) exhaustive: every symbol (both spellings) x exponents -9..9 and no exponent; all ordered pairs of symbols x 2 separators
    strings = []
    for sym in SYMS + list(U_SPELLING.values()):
        strings.append(sym)
        strings += [sym + str(e) for e in range(-9, 10)]
    pairs = [(a, b) for a in SYMS for b in SYMS]
    if quick:
        pairs = rng.sample(pairs, 600)
    for a, b in pairs:
        for sep in "./":
            strings.append(a + rng.choice(["", "2", "-1", "3"]) + sep + b + rng.choice(["", "2", "-1", "-2"]))
    n_exh = len(strings)
    strings += [rand_unit_string(rng) for _ in range(1500 if quick else 60000)]
    # (b) malformed stream
    for _ in range(2500 if quick else 80000):
        s = rand_unit_string(rng)
        strings.append(rng.choice(MALFORM)(rng, s))
    items = []
    for s in strings:
        o = observe_units(s)
        go = "None" if "raised" in o else "(Some %s)" % g_ud(o["units"])
        items.append({"case": s, "obs": o, "gcase": g_str(s), "gobs": go, "nontrivial": "raised" not in o})
        run.count("units:" + ("raised" if "raised" in o else "read"))
    run.extra["unit_strings_exhaustive_part"] = n_exh

    import re
    alt = "|".join(sorted((re.escape(x) for x in SYMS + list(U_SPELLING.values())), key=len, reverse=True))
    gram = re.compile(r"\s*(%s)(-?[0-9]+)?([./](%s)(-?[0-9]+)?)*\s*\Z" % (alt, alt))

    def oracle_units(it):
        name = "a unit expression of the documented grammar is read with the dimension its symbols define; text outside the grammar raises"
        s, o = it["case"], it["obs"]
        if "raised" not in o and s.strip() != "" and not gram.match(s):
            return False, name + " [%r is outside the grammar but was read as %s]" % (s, o["units"])
        return None, name
    core.decide(run, items, IMPORTS, "accept_C18_units", oracle_units, shard=1500)
    # (c) print -> parse for (system, dims)
    systems = si.all_systems()
    cases = []
    for _ in range(1500 if quick else 20000):
        cases.append([list(rng.choice(systems)), [rng.randint(-9, 9) if rng.random() < 0.8 else 0 for _ in range(3)]])
    items = []
    for c in cases:
        o = observe_print(c)
        go = "(%s, %s)" % (g_str(o["text"]), "None" if o["back"] is None else "(Some %s)" % g_ud(o["back"]))
        items.append({"case": c, "obs": o, "gcase": g_ud(c), "gobs": go, "nontrivial": any(c[1])})

    def oracle_print(it):
        o = it["obs"]
        name = "printing a unit and parsing the text back gives the same unit (same exponents, same base for every non-zero exponent)"
        return (True if o["eq"] else False), name + ("" if o["eq"] else " [%r -> %r]" % (it["case"], o["back"]))
    core.decide(run, items, IMPORTS, "accept_C18_print", oracle_print, shard=800)
    # (d) quantity text: value + units, glued / blank-separated / malformed values
    vitems = []
    vals = ["1", "1.5", "1e3", "-2.5e-7", "1e-05", ".5", "5.", "inf", "nan", "1_0", "0x10", "abc", "1,5", "٣", "--1", "", "1e", "+3"]
    for _ in range(1500 if quick else 40000):
        us = rand_unit_string(rng)
        v = rng.choice(vals)
        r = rng.random()
        if r < 0.5:
            s = v + rng.choice([" ", "  ", "\t", " \n"]) + us
        elif r < 0.6:
            s = v + us                                    # glued
        elif r < 0.75:
            k = rng.randrange(1, len(us)) if len(us) > 1 else 1
            s = v + " " + us[:k] + " " + us[k:]           # a blank inside the unit expression
        elif r < 0.85:
            s = v
        elif r < 0.9:
            s = " " + v + " " + us + " "
        else:
            s = v + " " + rng.choice(MALFORM)(rng, us)
        toks = s.split()
        fo = float_ok(toks[0]) if toks else True
        o = observe_value(s)
        go = "None" if "raised" in o else "(Some %s)" % g_ud(o["units"])
        vitems.append({"case": s, "obs": o, "gcase": "(%s, %s)" % (g_str(s), g_bool(fo)), "gobs": go, "nontrivial": "raised" not in o})
        run.count("value_text:" + ("raised" if "raised" in o else "read"))
    def oracle_value(it):
        name = "a quantity text is a value, blanks, and one unit expression of the grammar; anything else raises"
        s, o = it["case"], it["obs"]
        toks = s.split()
        if "raised" not in o and (len(toks) > 2 or (len(toks) == 2 and not gram.match(toks[1]))):
            return False, name + " [%r was read as %s]" % (s, o["units"])
        return None, name
    core.decide(run, vitems, IMPORTS, "accept_C18_value", oracle_value, shard=800)
    # (e) values survive str -> parse bit for bit
    import strengths.units as U
    bad = []
    doubles = rand_doubles(rng, 3000 if quick else 100000)
    for x in doubles:
        u = rng.choice(systems)
        d = [rng.randint(-3, 3) for _ in range(3)]
        q = U.UnitValue(x, U.Units(U.UnitsSystem(space=u[0], time=u[1], quantity=u[2]), U.UnitsDimensions(space=d[0], time=d[1], quantity=d[2])))
        try:
            b = U.UnitValue(str(q))
            ok = struct.pack("<d", float(b.value)) == struct.pack("<d", x) and b.units == q.units
        except Exception as e:
            ok = False
        if not ok:
            bad.append([x.hex(), u, d, str(q)])
    run.evaluations += len(doubles)
    run.extra["quantities_round_tripped_bit_for_bit"] = len(doubles) - len(bad)
    for b in bad[:3]:
        run.violation({"correspondence": "value round trip", "case": b, "observed": "str(q) does not parse back to the same value and units",
                       "property_oracle": {"name": "printing a quantity and parsing it back gives a bit-identical value and the same unit", "holds": False}})
    run.rule = ("(a) every one of the 47 symbols and the 5 u-spellings alone and with exponents -9..9, two-factor strings over symbol pairs x both "
                "separators (all 47^2 pairs in the thorough tier, 600 sampled in quick), random 1-3 factor strings; (b) a malformed stream derived "
                "from the documentation's wrong examples (doubled / dangling / leading separators, '+' signs, fractional and misplaced "
                "exponents, embedded / trailing blanks, underscores and non-ASCII digits in exponents, unknown symbols, upper-casing, two "
                "units of one base kind): parse_units raised or (system, dimension) vs the grammar model; (c) Units(system, dims in [-9,9]^3): "
                "str, parse back, ==; (d) quantity texts: value and units separated by blanks / glued / with a blank inside the unit "
                "expression / malformed values, the value token judged by Python's float(); (e) finite doubles (special values, random bit "
                "patterns) x random units: str -> UnitValue bit for bit. non-trivial = the text was read")


def replay(run, payload):
    core.use_repo()
    acc = payload["correspondence"]
    c = payload["case"]
    if acc == "accept_C18_units":
        o = observe_units(c)
        go = "None" if "raised" in o else "(Some %s)" % g_ud(o["units"])
        core.decide(run, [{"case": c, "obs": o, "gcase": g_str(c), "gobs": go}], IMPORTS, acc, lambda it: (None, "grammar"))
    elif acc == "accept_C18_print":
        o = observe_print(c)
        go = "(%s, %s)" % (g_str(o["text"]), "None" if o["back"] is None else "(Some %s)" % g_ud(o["back"]))
        core.decide(run, [{"case": c, "obs": o, "gcase": g_ud(c), "gobs": go}], IMPORTS, acc, lambda it: (it["obs"]["eq"], "round trip"))
    elif acc == "accept_C18_value":
        toks = c.split()
        fo = float_ok(toks[0]) if toks else True
        o = observe_value(c)
        go = "None" if "raised" in o else "(Some %s)" % g_ud(o["units"])
        core.decide(run, [{"case": c, "obs": o, "gcase": "(%s, %s)" % (g_str(c), g_bool(fo)), "gobs": go}], IMPORTS, acc, lambda it: (None, "grammar"))
