"""C06 - unit conversion is exact SI scaling and composes.
Exhaustive sweep of the symbol tables through the public API + sampled triples."""
import random
from fractions import Fraction as Fr

from . import core, si
from .core import g_float, g_list, g_opt

IMPORTS = "Units AcceptC06"


def _units(U, sys3, dim3):
    return U.Units(U.UnitsSystem(space=sys3[0], time=sys3[1], quantity=sys3[2]),
                   U.UnitsDimensions(space=dim3[0], time=dim3[1], quantity=dim3[2]))


def _target(U, form, sys3, dim3):
    """Every accepted form of a conversion target; returns (target object, carries a dimension?)."""
    if form == "Units":
        return _units(U, sys3, dim3), True
    if form == "str":
        # zero exponents cannot be written: the string then names default bases for them; the case
        # builder only uses this form when every base of sys3 with zero exponent is the default one
        return si.units_str(sys3, dim3), True
    if form == "UnitValue":
        return U.UnitValue(7.0, _units(U, sys3, dim3)), True
    if form == "UnitsSystem":
        return U.UnitsSystem(space=sys3[0], time=sys3[1], quantity=sys3[2]), False
    if form == "dict":
        return {"space": sys3[0], "time": sys3[1], "quantity": sys3[2]}, False
    raise ValueError(form)


DEFAULT = ("µm", "s", "molecule")


def _str_sys(sys3, dim3):
    """system actually denoted by units_str(sys3, dim3)"""
    return tuple(u if e != 0 else d for u, e, d in zip(sys3, dim3, DEFAULT))


def observe(U, c):
    k = c["kind"]
    try:
        if k in ("scalar", "array"):
            tsys = tuple(c["dst"])
            tgt, _ = _target(U, c["form"], tsys, tuple(c["tdim"]))
            if k == "scalar":
                r = U.UnitValue(c["v"], _units(U, tuple(c["src"]), tuple(c["dim"]))).convert(tgt)
                return ["scalar", float(r.value), si.sys_of(r.units.sys), si.dim_of(r.units.dim)]
            r = U.UnitArray(list(c["v"]), _units(U, tuple(c["src"]), tuple(c["dim"]))).convert(tgt)
            return ["array", [float(x) for x in r.value], si.sys_of(r.units.sys), si.dim_of(r.units.dim)]
        if k == "via":
            q = U.UnitValue(c["v"], _units(U, tuple(c["src"]), tuple(c["dim"])))
            r = q.convert(U.UnitsSystem(*c["via"])).convert(U.UnitsSystem(*c["dst"]))
            return ["scalar", float(r.value), si.sys_of(r.units.sys), si.dim_of(r.units.dim)]
        if k == "composite":
            r = U.UnitValue("%r %s" % (c["v"], c["text"])).convert(U.UnitsSystem(*c["dst"]))
            return ["scalar", float(r.value), si.sys_of(r.units.sys), si.dim_of(r.units.dim)]
        if k == "derived":
            s = c["sym"] + ("" if c["e"] == 1 else str(c["e"]))
            u = U.parse_units(s)
            r = U.UnitValue("1 " + s).convert(U.UnitsSystem(*c["dst"]))
            return ["parsed", si.sys_of(u.sys), si.dim_of(u.dim), float(r.value)]
    except Exception as e:  # exception type is irrelevant to the property
        return ["raise", type(e).__name__]
    raise ValueError(k)


def emit(c, o):
    k = c["kind"]
    if k == "composite":
        gc = "(ConvScalar %s %s %s %s None)" % (g_float(c["v"]), si.g_usys(c["src"]), si.g_dim(c["dim"]), si.g_usys(c["dst"]))
    elif k in ("scalar", "array"):
        tdim = si.g_dim(c["tdim"]) if c["form"] in ("Units", "str", "UnitValue") else None
        v = g_float(c["v"]) if k == "scalar" else g_list([g_float(x) for x in c["v"]])
        gc = "(%s %s %s %s %s %s)" % ("ConvScalar" if k == "scalar" else "ConvArray", v, si.g_usys(c["src"]),
                                      si.g_dim(c["dim"]), si.g_usys(c["dst"]), g_opt(tdim))
    elif k == "via":
        gc = "(ConvVia %s %s %s %s %s)" % (g_float(c["v"]), si.g_usys(c["src"]), si.g_dim(c["dim"]),
                                           si.g_usys(c["via"]), si.g_usys(c["dst"]))
    else:
        if c["sym"] in si.C_VOLUME:
            gc = "(DerivedVol %s (%d) %s)" % (si.C_VOLUME[c["sym"]], c["e"], si.g_usys(c["dst"]))
        else:
            gc = "(DerivedMol %s (%d) %s)" % (si.C_MOLAR[c["sym"]], c["e"], si.g_usys(c["dst"]))
    if o[0] == "raise":
        go = "ORaise"
    elif o[0] == "scalar":
        go = "(OScalar %s %s %s)" % (g_float(o[1]), si.g_usys(o[2]), si.g_dim(o[3]))
    elif o[0] == "array":
        go = "(OArray %s %s %s)" % (g_list([g_float(x) for x in o[1]]), si.g_usys(o[2]), si.g_dim(o[3]))
    else:
        go = "(OParsed %s %s %s)" % (si.g_usys(o[1]), si.g_dim(o[2]), g_float(o[3]))
    return gc, go


def oracle(it):
    """C06 as stated, with the SI definitions written independently in harness/si.py (Fractions)."""
    c, o = it["case"], it["obs"]
    name = "converted value x SI(destination units) = value x SI(source units), rel 1e-12; dimension kept; wrong dimension raises"

    def rel_ok(exp, got):
        return abs(Fr(got) - exp) <= Fr(1, 10**12) * abs(exp)
    k = c["kind"]
    if k in ("scalar", "array"):
        must_raise = c["form"] in ("Units", "str", "UnitValue") and tuple(c["tdim"]) != tuple(c["dim"])
        if must_raise:
            return (o[0] == "raise"), name
        if o[0] == "raise":
            return False, name
        f = si.si_scale(c["src"], c["dim"]) / si.si_scale(c["dst"], c["dim"])
        vals = [c["v"]] if k == "scalar" else c["v"]
        got = [o[1]] if k == "scalar" else o[1]
        ok = len(vals) == len(got) and all(rel_ok(Fr(v) * f, g) for v, g in zip(vals, got))
        return ok and tuple(o[2]) == tuple(c["dst"]) and tuple(o[3]) == tuple(c["dim"]), name
    if k in ("via", "composite"):
        if o[0] == "raise":
            return False, name
        f = si.si_scale(c["src"], c["dim"]) / si.si_scale(c["dst"], c["dim"])
        return rel_ok(Fr(c["v"]) * f, o[1]) and tuple(o[3]) == tuple(c["dim"]), name
    if k == "derived":
        if o[0] != "parsed":
            return False, name
        e = c["e"]
        if c["sym"] in si.VOLUME:
            pref = {"kL": 3, "L": 0, "mL": -3, "µL": -6, "nL": -9, "pL": -12, "fL": -15}[c["sym"]]
            exp_si = (Fr(10) ** pref * Fr(1, 1000)) ** e          # 1 L = 1e-3 m3
            dim = (3 * e, 0, 0)
        else:
            pref = {"kM": 3, "M": 0, "dM": -1, "cM": -2, "mM": -3, "µM": -6, "nM": -9, "pM": -12, "fM": -15}[c["sym"]]
            exp_si = (Fr(10) ** pref * si.NA * 1000) ** e        # 1 M = N_A molecules per 1e-3 m3
            dim = (-3 * e, 0, e)
        exp = exp_si / si.si_scale(c["dst"], dim)
        return tuple(o[2]) == dim and rel_ok(exp, o[3]), name
    return None, name


def gen_cases(rng, tier):
    cases = []
    # (a) exhaustive: every same-kind symbol pair x exponents -3..3
    for idx, table in enumerate((si.SPACE, si.TIME, si.AMOUNT)):
        for u in table:
            for u2 in table:
                for e in range(-3, 4):
                    src, dst, dim = list(DEFAULT), list(DEFAULT), [0, 0, 0]
                    src[idx], dst[idx], dim[idx] = u, u2, e
                    cases.append({"kind": "scalar", "v": 3.0, "src": src, "dim": dim, "dst": dst,
                                  "tdim": dim, "form": "Units", "group": "exhaustive-base"})
    # (b) derived symbols
    for sym in si.VOLUME + si.MOLAR:
        for e in (-2, -1, 1, 2, 3):
            dst = ["m", "s", "mol"] if e != 2 else list(rng.choice(si.all_systems()))
            cases.append({"kind": "derived", "sym": sym, "e": e, "dst": dst, "group": "exhaustive-derived"})
    # (b') composite texts: several factors of ONE base written separately - the same symbol twice, a litre symbol beside its base
    # length, a molar symbol beside the litre - read as the sum of the exponents (a factor that is dropped changes the dimension)
    VB = {"kL": "m", "L": "dm", "mL": "cm", "µL": "mm", "nL": "dmm", "pL": "cmm", "fL": "µm"}
    MB = {"kM": "kmol", "M": "mol", "dM": "dmol", "cM": "cmol", "mM": "mmol", "µM": "µmol", "nM": "nmol", "pM": "pmol", "fM": "fmol"}
    comp = []
    for idx, table in enumerate((si.SPACE, si.TIME, si.AMOUNT)):
        for u in table:
            a, b = rng.choice([1, 2, 3]), rng.choice([-2, -1, 1, 2])
            if a + b != 0:
                src, dim = list(DEFAULT), [0, 0, 0]
                src[idx], dim[idx] = u, a + b
                fa = u + ("" if a == 1 else str(a))
                comp.append((fa + ("." + u + ("" if b == 1 else str(b)) if b > 0 else "/" + u + ("" if b == -1 else str(-b))), src, dim))
    for v_, b_ in VB.items():
        comp.append((v_ + "/" + b_ + "2", [b_, "s", "molecule"], [1, 0, 0]))                 # a volume per area is a length
        comp.append((b_ + "." + v_, [b_, "s", "molecule"], [4, 0, 0]))
    for m_, q_ in MB.items():
        comp.append((m_ + ".L", ["dm", "s", q_], [0, 0, 1]))                                  # a concentration times a volume is an amount
        comp.append((m_ + ".dm", ["dm", "s", q_], [-2, 0, 1]))
        comp.append(("mol/L." + "dm" if m_ == "M" else m_ + "/dm", ["dm", "s", q_], [-2 if m_ == "M" else -4, 0, 1]))
    for text, src, dim in comp:
        cases.append({"kind": "composite", "text": text, "v": 2.5, "src": src, "dim": dim, "dst": list(rng.choice(si.all_systems())),
                      "group": "composite-text"})
    # (c) every accepted target form, scalar and array, right and wrong dimension
    systems = si.all_systems()
    for form in ("str", "Units", "UnitValue", "UnitsSystem", "dict"):
        for kind in ("scalar", "array"):
            for wrong in (False, True):
                src, dst = list(rng.choice(systems)), list(rng.choice(systems))
                dim = [rng.choice([-2, -1, 1, 2, 3]) for _ in range(3)]
                tdim = list(dim)
                if wrong:
                    tdim[rng.randrange(3)] += rng.choice([-1, 1, 2])
                if form == "str":
                    dst = list(_str_sys(dst, tdim))
                v = 2.5 if kind == "scalar" else [1.0, -0.75, 1e6, 0.0]
                cases.append({"kind": kind, "v": v, "src": src, "dim": dim, "dst": dst, "tdim": tdim,
                              "form": form, "group": "forms"})
    # (d) sampled triples: composition, round trip, arrays, rejection
    n = 1500 if tier == "quick" else 40000
    for i in range(n):
        src, via, dst = (list(rng.choice(systems)) for _ in range(3))
        dim = [rng.randint(-4, 4) for _ in range(3)]
        v = rng.choice([-1, 1]) * rng.uniform(1, 10) * 10.0 ** rng.randint(-6, 6)
        r = rng.random()
        if r < 0.45:
            cases.append({"kind": "via", "v": v, "src": src, "dim": dim, "via": via, "dst": dst, "group": "compose"})
        elif r < 0.6:
            cases.append({"kind": "via", "v": v, "src": src, "dim": dim, "via": via, "dst": src, "group": "roundtrip"})
        elif r < 0.65:
            cases.append({"kind": "via", "v": v, "src": src, "dim": dim, "via": src, "dst": src, "group": "identity"})
        else:
            form = rng.choice(["str", "Units", "UnitValue", "UnitsSystem", "dict"])
            tdim = list(dim)
            if rng.random() < 0.3:
                tdim[rng.randrange(3)] += rng.choice([-2, -1, 1, 2])
            if form == "str":
                dst = list(_str_sys(dst, tdim))
            kind = rng.choice(["scalar", "array"])
            vv = v if kind == "scalar" else [v * rng.uniform(-2, 2) for _ in range(rng.randint(0, 4))]
            cases.append({"kind": kind, "v": vv, "src": src, "dim": dim, "dst": dst, "tdim": tdim,
                          "form": form, "group": "sampled-forms"})
    return cases


def build_items(cases):
    import strengths.units as U
    items = []
    for c in cases:
        o = observe(U, c)
        gc, go = emit(c, o)
        items.append({"case": c, "obs": o, "gcase": gc, "gobs": go})
    return items


def check(run):
    rng = random.Random(run.seed)
    cases = gen_cases(rng, run.tier)
    for c in cases:
        run.count("group:" + c["group"])
    items = build_items(cases)
    run.rule = ("exhaustive: 321 same-kind base-symbol pairs x exponents -3..3 (2247), 16 derived symbols x 5 exponents, "
                "5 target forms x scalar/array x right/wrong dimension; sampled: random (source, via, destination) systems "
                "among 1100, dimension vectors in [-4,4]^3, magnitudes 1e-6..1e7; a case is non-trivial when the model "
                "evaluated a conversion or a rejection on it (Coq branch tag > 0); distinct = distinct canonical case")
    run.exhaustive = True
    run.extra["exhaustive_scope"] = "base-symbol pairs x exponents -3..3, derived symbols, target forms; triples are sampled"
    run.assumptions = ["binary64 results compared with the exact model value at relative 1e-12 (the property's own bound)"]
    core.decide(run, items, IMPORTS, "accept_C06", oracle)


def replay(run, payload):
    items = build_items([payload["case"]])
    core.decide(run, items, IMPORTS, "accept_C06", oracle)
