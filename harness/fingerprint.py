"""Physical content of the package's objects as (numbers in SI, discrete items): what C12 requires to survive a round trip."""
from fractions import Fraction as Fr

from . import si


def _q(v):
    """SI value of a UnitValue"""
    return float(Fr(float(v.value)) * si.si_scale(si.sys_of(v.units.sys), si.dim_of(v.units.dim)))


def _arr(a):
    sc = si.si_scale(si.sys_of(a.units.sys), si.dim_of(a.units.dim))
    return [float(Fr(float(x)) * sc) for x in a.value]


def _envval(v, num, disc, tag):
    import strengths.units as U
    if isinstance(v, dict):
        for k in sorted(v):
            disc.append("%s[%s]" % (tag, k))
            num.append(_q(v[k]))
    else:
        disc.append(tag)
        num.append(_q(v))


def _usys(u):
    return "units:%s,%s,%s" % si.sys_of(u)


def network(net, num, disc):
    disc.append("net " + _usys(net.units_system))
    disc.append("envs:" + "|".join(net.environments))
    for s in net.species:
        disc.append("species:%s %s chstt=%r" % (s.label, _usys(s.units_system), s.chstt if not isinstance(s.chstt, dict) else sorted(s.chstt.items())))
        _envval(s.D, num, disc, "D")
        _envval(s.density, num, disc, "dens")
    for r in net.reactions:
        disc.append("reaction:%r sub=%r prod=%r %s" % (r.label, sorted((k, v) for k, v in r.substrates.items() if v), sorted((k, v) for k, v in r.products.items() if v),
                                                      _usys(r.units_system)))
        _envval(r.kf, num, disc, "kf")
        _envval(r.kr, num, disc, "kr")


def space(sp, num, disc):
    import strengths
    if isinstance(sp, strengths.RDGridSpace):
        disc.append("grid %d %d %d %s bc=%r env=%r" % (sp.w, sp.h, sp.d, _usys(sp.units_system), sorted(sp.get_boundary_conditions().items()),
                                                       [int(e) for e in sp.cell_env]))
        num.append(_q(sp.cell_vol))
    else:
        disc.append("graph %s nodes=%d edges=%d" % (_usys(sp.units_system), len(sp.nodes), len(sp.edges)))
        for n in sp.nodes:
            disc.append("node env=%d %s" % (int(n.environment), _usys(n.units_system)))
            num.append(_q(n.volume))
        for e in sp.edges:
            disc.append("edge %d %d %s" % (int(e.i), int(e.j), _usys(e.units_system)))
            num.append(_q(e.surface))
            num.append(_q(e.distance))


def system(sy, num, disc):
    disc.append("system " + _usys(sy.units_system))
    network(sy.network, num, disc)
    space(sy.space, num, disc)
    num.extend(_arr(sy.state))
    disc.append("state unit:" + si.sys_of(sy.state.units.sys)[2])        # bases with a zero exponent are not part of a unit (Units.__eq__)
    disc.append("chemostats:%r" % [int(bool(c)) for c in sy.chemostats])


def script(sc, num, disc):
    disc.append("script %s policy=%s seed=%r init=%s" % (_usys(sc.units_system), sc.sampling_policy, sc.rng_seed, sc.init_state_processing))
    system(sc.system, num, disc)
    num.extend(_arr(sc.t_sample))
    num.append(_q(sc.time_step))
    num.append(_q(sc.t_max))
    num.append(_q(sc.sampling_interval))


def trajectory(tr, num, disc):
    disc.append("trajectory engine=%r option=%r cgmap=%r data unit:%s time unit:%s" % (
        tr.engine_description, tr.engine_option, None if tr.cgmap is None else list(tr.cgmap), si.sys_of(tr.data.units.sys)[2], si.sys_of(tr.t.units.sys)[1]))
    if tr.script is not None:
        script(tr.script, num, disc)
    system(tr.system, num, disc)
    num.extend(_arr(tr.t))
    num.extend(_arr(tr.data))


def of(kind, obj):
    num, disc = [], []
    {"network": network, "space": space, "system": system, "script": script, "trajectory": trajectory}[kind](obj, num, disc)
    return {"num": num, "disc": disc}
