"""C08 - a trajectory is a pure function of script, engine kind and seed."""
import json
import math
import random

from . import core, sysgen, trajgen, engine_build, child
from .core import g_float, g_list, g_bool

IMPORTS = "AcceptC08"


def make_case(rng, tier):
    c = trajgen.make_sim_case(rng, max_cells=5, max_steps=40 if tier == "quick" else 300)
    n = len(c["state"])
    if rng.random() < 0.5:
        c["state"] = [rng.choice([0.0, 0.4, 1.5, 3.0, 7.25, 20.0, 130.5]) for _ in range(n)]
        c["init"] = rng.choice(["auto", "redist", "Poisson", "none"]) if c["engine"] != "euler" else rng.choice(["auto", "none"])
    c["sched_seed"] = rng.randrange(2 ** 30)
    if rng.random() < 0.25:
        c["seed"] = rng.choice([0, 0, 1, 2 ** 31 - 1, 2 ** 32 - 1, 2 ** 53 + 1, 2 ** 63 - 25])       # edge values of the seed
    return c


CAPPED = []


def _drive(eng, script, sched_rng=None, max_iter=4000):
    eng.setup(script)
    it = 0
    while it < max_iter:
        if sched_rng is None:
            alive = eng.iterate()
            it += 1
        else:
            r = sched_rng.random()
            if r < 0.3:
                alive = eng.iterate()
                it += 1
            elif r < 0.6:
                k = sched_rng.randint(0, 7)
                alive = eng.iterate_n(k)
                it += k
                if k == 0:
                    alive = True if not eng.is_complete() else False
            else:
                alive = eng.run(sched_rng.choice([0, 0, 1, 3]))
                it += 1
        if not alive:
            break
    else:
        CAPPED.append(True)       # the loop was cut by the harness, not completed by the engine: schedules stop at different places
    out = eng.get_output()
    eng.finalize()
    return out, _clip([float(v) for v in out.t.value] + [float(v) for v in out.data.value])


def observe(c):
    import strengths
    del CAPPED[:]
    rng = random.Random(c["sched_seed"])
    kind = c["engine"]
    script = trajgen.build_script(strengths, c)
    e1 = engine_build.engine(kind)
    out_ref, ref = _drive(e1, script)
    if not all(math.isfinite(v) for v in ref):
        return {"nonfinite": True}
    runs = []
    # the same again on the same object; on another object of the same kind
    runs.append(["again", _drive(e1, script)[1], True])
    # the same description built into a script a second time (the seed goes through the script's constructor again)
    runs.append(["rebuilt_script", _drive(engine_build.engine(kind), trajgen.build_script(strengths, c))[1], True])
    e2 = engine_build.engine(kind)
    runs.append(["other_object", _drive(e2, script)[1], True])
    # after unrelated simulations of other kinds in the same process
    for _ in range(rng.randint(1, 3)):
        oc = trajgen.make_sim_case(rng, max_cells=3, max_steps=10)
        n0 = len(CAPPED)
        try:
            _drive(engine_build.engine(oc["engine"]), trajgen.build_script(strengths, oc), max_iter=300)
        except Exception:
            pass
        del CAPPED[n0:]           # the unrelated runs may be cut short: they are only history
    runs.append(["after_other_simulations", _drive(e1, script)[1], True])
    # after a sibling: the same space, the same numbers of species, reactions and environments, other stoichiometries and constants
    # (whatever an engine keeps between set-ups keyed on sizes alone would survive into the next run)
    import copy
    sib = copy.deepcopy(c)
    labels = [sp["label"] for sp in sib["desc"]["species"]]
    for r in sib["desc"]["reactions"]:
        a, b = rng.choice(labels), rng.choice(labels)
        r["sub"], r["prod"] = {a: rng.choice([0, 2, 3])} if rng.random() < 0.7 else {a: 1, b: 1} if a != b else {a: 2}, {b: rng.choice([1, 2])}
        for key in ("kf", "kr"):
            r[key] = {"scalar": {"v": rng.choice([0.0, 0.25, 1.0, 3.0]), "sys": ["µm", "s", "molecule"]}}
    sib["seed"] = rng.randrange(2 ** 31)
    n0 = len(CAPPED)
    try:
        _drive(engine_build.engine(kind), trajgen.build_script(strengths, sib), max_iter=300)
    except Exception:
        pass
    del CAPPED[n0:]
    runs.append(["after_sibling_simulation", _drive(engine_build.engine(kind), script)[1], True])
    # after a geometric sibling on the SAME engine object: the same cells and the same list of edges, other surfaces, distances and
    # volumes within a factor of eight, so that the time step still suits (whatever the wrapper keeps between set-ups keyed on the topology alone would survive into the next run)
    geo = copy.deepcopy(c)
    gsp = geo["desc"]["space"]
    scale = lambda q: ({"bare": q["bare"] * rng.choice([0.25, 0.5, 2.0, 8.0])} if "bare" in q else
                       {"v": q["v"] * rng.choice([0.25, 0.5, 2.0, 8.0]), "sys": list(q["sys"])})
    if gsp["type"] == "graph":
        for e_ in gsp["edges"]:
            e_["surface"], e_["distance"] = scale(e_["surface"]), scale(e_["distance"])
        for n_ in gsp["nodes"]:
            n_["vol"] = scale(n_["vol"])
    else:
        gsp["vol"] = scale(gsp["vol"])
    geo["seed"] = rng.randrange(2 ** 31)
    n0 = len(CAPPED)
    e3 = engine_build.engine(kind)         # an object whose first set-up is the sibling's
    try:
        _drive(e3, trajgen.build_script(strengths, geo), max_iter=300)
    except Exception:
        pass
    del CAPPED[n0:]
    runs.append(["after_geometric_sibling_on_the_same_object", _drive(e3, script)[1], True])
    # the same run asked for through simulate(): every script property handed over as a keyword argument (the reference completed
    # within the harness's cap, so this loop ends too)
    if not CAPPED:
        import importlib
        simmod = importlib.import_module("strengths.simulate")
        kw = dict(time_step=script.time_step, t_max=script.t_max, sampling_policy=script.sampling_policy, sampling_interval=script.sampling_interval,
                  rng_seed=script.rng_seed, units_system=script.units_system, init_state_processing=script.init_state_processing)
        out_s = simmod.simulate(script.system, script.t_sample, engine=engine_build.engine(kind), **kw)
        runs.append(["through_simulate", _clip([float(v) for v in out_s.t.value] + [float(v) for v in out_s.data.value]), True])
        if out_s.script.rng_seed != script.rng_seed:
            runs.append(["through_simulate_seed_kept", [float(out_s.script.rng_seed)], True])      # (never equal to the reference trajectory)
    # random partitions of the loop into iterate / iterate_n(k) / run(ms)
    for k in range(3):
        runs.append(["schedule_%d" % k, _drive(engine_build.engine(kind), script, sched_rng=random.Random(rng.randrange(2 ** 30)))[1], True])
    # the script written to a dictionary and read back (as a file would) reproduces it
    import strengths.rdscript as _rs
    runs.append(["script_through_dictionary", _drive(engine_build.engine(kind), _rs.rdscript_from_dict(json.loads(json.dumps(_rs.rdscript_to_dict(script)))))[1], True])
    # the script stored in the trajectory reproduces it
    runs.append(["stored_script", _drive(engine_build.engine(kind), out_ref.script)[1], True])
    # a drawn seed is stored and reproduces the run
    c2 = dict(c)
    c2["seed"] = None
    s_none = trajgen.build_script(strengths, c2)
    out_n, tr_n = _drive(engine_build.engine(kind), s_none)
    tr_n2 = _drive(engine_build.engine(kind), out_n.script)[1]
    drawn_ok = (tr_n == tr_n2) or not all(math.isfinite(v) for v in tr_n)
    # another seed
    c3 = dict(c)
    c3["seed"] = (c["seed"] + 1 + rng.randrange(1000)) % (2 ** 31)
    tr_s = _drive(engine_build.engine(kind), trajgen.build_script(strengths, c3))[1]
    nt = len(out_ref.t.value)
    if kind == "euler":
        runs.append(["other_seed", tr_s, True])
    elif kind == "gillespie" and nt >= 3 and c["policy"] in ("on_iteration",):
        runs.append(["other_seed", tr_s, False])          # event times are continuous: they differ as soon as there is an event
    if CAPPED:
        return {"nonfinite": True, "capped": True}        # discarded like a diverged run: nothing comparable
    return {"ref": ref, "runs": runs, "drawn_seed_reproduces": drawn_ok, "nsamples": nt, "drawn_seed": out_n.script.rng_seed}


CLIP = 1500


def _clip(tr):
    """what a run is represented by: the whole (times + data) when short; otherwise its first and last CLIP numbers, its length and a
    52-bit digest (sha1) of the part in between - two runs are bit-identical iff these agree (up to a digest collision)"""
    if len(tr) <= 2 * CLIP:
        return tr
    import hashlib
    import struct
    h = hashlib.sha1(struct.pack("%dd" % (len(tr) - 2 * CLIP), *tr[CLIP:-CLIP])).hexdigest()
    return tr[:CLIP] + tr[-CLIP:] + [float(len(tr)), float(int(h[:13], 16))]


def emit(c, o):
    ref = g_list([g_float(v) for v in o["ref"]])
    terms = ["(%s, %s)" % (g_list([g_float(v) for v in tr]), g_bool(eq)) for _, tr, eq in o["runs"]]
    # the run from a drawn seed is reproduced by its stored script: passed as "equal to the reference" or as a list that cannot be
    terms.append("(%s, true)" % (ref if o["drawn_seed_reproduces"] else g_list([g_float(1.0)] * (len(o["ref"]) + 1))))
    return ref, g_list(terms)


def oracle(it):
    o = it["obs"]
    name = "same script + seed + engine kind gives a bit-identical trajectory whatever the schedule, object or history; other seeds only change stochastic results"
    if "error" in o:
        return False, name + " [raised: %s]" % o["error"]
    for label, tr, eq in o["runs"]:
        if (tr == o["ref"]) != eq:
            return False, name + " [run '%s' %s the reference]" % (label, "differs from" if eq else "is identical to")
    if not o["drawn_seed_reproduces"]:
        return False, name + " [the script stored after rng_seed=None (seed %r) does not reproduce the run]" % o.get("drawn_seed")
    return True, name


def build_items(cases, run=None):
    engine_build.build(False)
    obs = child.map_children("c08", "observe", cases, timeout=15)
    obs2 = child.map_children("c08", "observe", cases, timeout=15)      # fresh processes again: process independence
    items = []
    for c, o, o2 in zip(cases, obs, obs2):
        if any(k in o for k in ("timeout", "crash", "nonfinite")) or any(k in o2 for k in ("timeout", "crash", "nonfinite")):
            if run:
                run.count("discarded_timeout_crash_nonfinite")
            continue
        if "error" in o:
            o = {"error": o["error"], "ref": [0.0], "runs": [["error", [1.0], True]], "drawn_seed_reproduces": True, "nsamples": 0}
        elif "ref" in o2:
            o["runs"].append(["fresh_process", o2["ref"], True])
        try:
            gc, go = emit(c, o)
        except ValueError:
            if run:
                run.count("discarded_nonfinite")
            continue
        items.append({"case": c, "obs": o, "gcase": gc, "gobs": go, "nontrivial": o.get("nsamples", 0) >= 2})
    return items


def check(run):
    rng = random.Random(run.seed)
    sysgen.POOLS["space"] = ["cm", "mm", "dmm", "cmm", "µm", "nm", "dm"]
    n = 120 if run.tier == "quick" else 400
    cases = [make_case(rng, run.tier) for _ in range(n)]
    items = build_items(cases, run)
    for it in items:
        c = it["case"]
        run.count("engine:" + c["engine"])
        run.count("init:" + c["init"])
        run.count("space:" + c["desc"]["space"]["type"])
        for label, _, eq in it["obs"]["runs"]:
            run.count("run:" + label.split("_")[0] + (":must_differ" if not eq else ""))
    run.rule = ("random scripts (three engines, grid / graph, four policies, init_state_processing none / auto / redist / Poisson) executed in one "
                "child process: reference = plain iterate() loop; then the same again on the same object, on another object, after 1-3 unrelated "
                "simulations of random kinds, after a sibling simulation (same space and table sizes, other stoichiometries and constants), under three random partitions into iterate / iterate_n(k, incl. 0) / run(0,1,3 ms), from the "
                "script stored in the reference trajectory, from a script with rng_seed=None and then from the script stored by that run, "
                "with another seed (Euler: must be identical; Gillespie with >= 2 recorded events: must differ), and once more in a fresh "
                "process. Times and data compared bit for bit (exact rationals in Coq; of trajectories longer than 3000 numbers the first and "
                "last 1500, the length and a sha1 digest of the middle part are compared). non-trivial = >= 2 samples")
    core.decide(run, items, IMPORTS, "accept_C08", oracle, shard=8)


def replay(run, payload):
    sysgen.POOLS["space"] = ["cm", "mm", "dmm", "cmm", "µm", "nm", "dm"]
    core.decide(run, build_items([payload["case"]]), IMPORTS, "accept_C08", oracle)
