"""C05 - arithmetic on quantities is arithmetic on SI values, or an error.
Every dispatch path (operand kinds x operators, direct and reflected) + random expression trees."""
import math
import random
from fractions import Fraction as Fr

from . import core, si
from .core import g_float, g_list

IMPORTS = "Units UnitsOps AcceptC06 AcceptC05"
OPS = ["Add", "Sub", "Mul", "Div", "Mod"]
PYOP = {"Add": lambda a, b: a + b, "Sub": lambda a, b: a - b, "Mul": lambda a, b: a * b,
        "Div": lambda a, b: a / b, "Mod": lambda a, b: a % b}
CMP = {"CEq": lambda a, b: a == b, "CNe": lambda a, b: a != b, "CLt": lambda a, b: a < b,
       "CLe": lambda a, b: a <= b, "CGt": lambda a, b: a > b, "CGe": lambda a, b: a >= b}


# ------------------------------------------------------------------------------ implementation side
def build(U, t):
    k = t[0]
    if k == "num":
        return t[1]
    if k in ("val", "arr"):
        units = U.Units(U.UnitsSystem(space=t[2][0], time=t[2][1], quantity=t[2][2]),
                        U.UnitsDimensions(space=t[3][0], time=t[3][1], quantity=t[3][2]))
        return U.UnitValue(t[1], units) if k == "val" else U.UnitArray(list(t[1]), units)
    if k == "bin":
        return PYOP[t[1]](build(U, t[2]), build(U, t[3]))
    if k == "neg":
        return -build(U, t[1])
    if k == "abs":
        return abs(build(U, t[1]))
    if k == "pow":
        return build(U, t[1]) ** t[2]
    raise ValueError(k)


def canon(U, r):
    import numpy as np
    if isinstance(r, (bool, np.bool_)):
        return ["bool", bool(r)]
    if type(r) == U.UnitValue:
        return ["val", float(r.value), si.sys_of(r.units.sys), si.dim_of(r.units.dim)]
    if type(r) == U.UnitArray:
        return ["arr", [float(x) for x in r.value], si.sys_of(r.units.sys), si.dim_of(r.units.dim)]
    if isinstance(r, (int, float, np.floating, np.integer)):
        return ["num", float(r)]
    return ["other", repr(type(r))]


def observe(U, c):
    import warnings
    try:
        with warnings.catch_warnings():
            warnings.simplefilter("error")
            if c["kind"] == "expr":
                return canon(U, build(U, c["tree"]))
            if c["kind"] == "cmp":
                return canon(U, CMP[c["op"]](build(U, c["a"]), build(U, c["b"])))
            if c["kind"] == "powq":
                return canon(U, build(U, c["a"]) ** (c["p"] / c["q"]))
    except Exception as e:
        return ["raise", type(e).__name__]
    raise ValueError(c["kind"])


# ------------------------------------------------------------------------------ oracle (SI, exact)
class Degenerate(Exception):
    """the case sits on a discontinuity / cancellation / zero divisor: outside what floats can decide"""


class SemErr(Exception):
    pass


U0 = 2.5e-16          # a few units in the last place: what one float operation (with its unit conversions) may add
EMAX = 1e-11          # accumulated relative error bound beyond which 1e-9 agreement is not the floats' to give


class Ev(tuple):
    """exact SI value with a bound on the relative error the float evaluation may have accumulated on it"""
    def __new__(cls, x, e=0.0):
        if e > EMAX:
            raise Degenerate()
        return tuple.__new__(cls, (x, e))
    x = property(lambda s: s[0])
    e = property(lambda s: s[1])


def _fmod(a, b):
    if b.x == 0:
        raise Degenerate()
    q = a.x / b.x
    fl = math.floor(q)
    if abs(q) > 10**6 or min(q - fl, fl + 1 - q) < Fr(1, 10**6) * max(1, abs(q)):
        raise Degenerate()
    r = a.x - b.x * fl
    return Ev(r, float((abs(a.x) * Fr(a.e + 4 * U0) + abs(b.x * fl) * Fr(b.e + 4 * U0)) / abs(r)) + 4 * U0)


def _zip(f, a, b):
    la, lb = isinstance(a, list), isinstance(b, list)
    if la and lb:
        if len(a) != len(b):
            raise SemErr()
        return [f(x, y) for x, y in zip(a, b)]
    if la:
        return [f(x, b) for x in a]
    if lb:
        return [f(a, y) for y in b]
    return f(a, b)


def _map(f, a):
    return [f(x) for x in a] if isinstance(a, list) else f(a)


def _chk_add(x, y):
    r = x.x + y.x
    if r == 0 or abs(r) < Fr(1, 10) * max(abs(x.x), abs(y.x)):
        raise Degenerate()
    return Ev(r, float((abs(x.x) * Fr(x.e) + abs(y.x) * Fr(y.e)) / abs(r)) + 4 * U0)


def _div(x, y):
    if y.x == 0:
        raise Degenerate()
    return Ev(x.x / y.x, x.e + y.e + 4 * U0)


def _scaled(v, f):
    return _map(lambda y: Ev(y.x * f, y.e + 2 * U0), v)


def sem_e(t):
    """(SI value(s) with error bounds, dim or None, stored system or None); raises SemErr / Degenerate."""
    k = t[0]
    if k == "num":
        return Ev(Fr(t[1])), None, None
    if k == "val":
        return Ev(Fr(t[1]) * si.si_scale(t[2], t[3])), tuple(t[3]), tuple(t[2])
    if k == "arr":
        sc = si.si_scale(t[2], t[3])
        return [Ev(Fr(x) * sc) for x in t[1]], tuple(t[3]), tuple(t[2])
    if k == "neg":
        v, d, s = sem_e(t[1])
        return _map(lambda x: Ev(-x.x, x.e), v), d, s
    if k == "abs":
        v, d, s = sem_e(t[1])
        return _map(lambda x: Ev(abs(x.x), x.e), v), d, s
    if k == "pow":
        v, d, s = sem_e(t[1])
        if isinstance(v, list):
            raise SemErr()
        if v.x == 0:
            raise Degenerate()
        return Ev(v.x ** t[2], (abs(t[2]) + 1) * (v.e + 4 * U0)), (None if d is None else tuple(t[2] * e for e in d)), s
    op = t[1]
    (va, da, sa), (vb, db, sb) = sem_e(t[2]), sem_e(t[3])
    if op in ("Add", "Sub", "Mod"):
        if da is not None and db is not None:
            if da != db:
                raise SemErr()
        elif da is not None:          # the plain number is read in the stored units of the quantity
            vb = _scaled(vb, si.si_scale(sa, da))
        elif db is not None:
            va = _scaled(va, si.si_scale(sb, db))
        f = {"Add": _chk_add, "Sub": lambda x, y: _chk_add(x, Ev(-y.x, y.e)), "Mod": _fmod}[op]
        return _zip(f, va, vb), (da if da is not None else db), (sa if sa is not None else sb)
    if op == "Mul":
        d = None if da is None and db is None else tuple(x + y for x, y in zip(da or (0, 0, 0), db or (0, 0, 0)))
        return _zip(lambda x, y: Ev(x.x * y.x, x.e + y.e + 4 * U0), va, vb), d, (sa if sa is not None else sb)
    if op == "Div":
        d = None if da is None and db is None else tuple(x - y for x, y in zip(da or (0, 0, 0), db or (0, 0, 0)))
        return _zip(_div, va, vb), d, (sa if sa is not None else sb)
    raise ValueError(op)


def sem(t):
    v, d, s = sem_e(t)
    return _map(lambda x: x.x, v), d, s


def sem_cmp(op, a, b):
    (va, da, sa), (vb, db, sb) = sem(a), sem(b)
    if isinstance(va, list) or isinstance(vb, list):
        raise SemErr()
    if da is not None and db is not None and da != db:
        if op == "CEq":
            return False
        if op == "CNe":
            return True
        raise SemErr()
    if da is not None and db is None:
        vb = vb * si.si_scale(sa, da)
    if db is not None and da is None:
        va = va * si.si_scale(sb, db)
    if va != vb and abs(va - vb) < Fr(1, 10**6) * max(abs(va), abs(vb)):
        raise Degenerate()
    return {"CEq": va == vb, "CNe": va != vb, "CLt": va < vb, "CLe": va <= vb, "CGt": va > vb, "CGe": va >= vb}[op]


def expected(c):
    """('raise',) | ('value', si values, dim, sys) | ('bool', b) | None when degenerate."""
    try:
        if c["kind"] == "expr":
            v, d, s = sem(c["tree"])
            return ("value", v, d, s)
        if c["kind"] == "cmp":
            return ("bool", sem_cmp(c["op"], c["a"], c["b"]))
        if c["kind"] == "powq":
            v, d, s = sem(c["a"])
            if isinstance(v, list):
                return ("raise",)
            if d is not None and any((c["p"] * e) % c["q"] for e in d):
                return ("raise",)
            nd = None if d is None else tuple(c["p"] * e // c["q"] for e in d)
            return ("root", v, nd, s)
    except SemErr:
        return ("raise",)
    except Degenerate:
        return None


def oracle(it):
    c, o = it["case"], it["obs"]
    name = "SI value and dimension of the result equal exact arithmetic on the operands' SI values and dimensions; meaningless operations raise"
    e = expected(c)
    if e is None:
        return None, name

    def rel(exp, got, tol=Fr(1, 10**9)):
        return abs(Fr(got) - exp) <= tol * abs(exp)
    if e[0] == "raise":
        return o[0] == "raise", name
    if o[0] == "raise":
        return False, name
    if e[0] == "bool":
        return (o[0] == "bool" and o[1] == e[1]), name
    if e[0] == "value":
        _, v, d, s = e
        if d is None:
            return (o[0] == "num" and rel(v, o[1])), name
        if o[0] not in ("val", "arr") or tuple(o[3]) != tuple(d):
            return False, name
        sc = si.si_scale(o[2], o[3])
        if isinstance(v, list):
            return (o[0] == "arr" and len(v) == len(o[1]) and all(rel(x, Fr(y) * sc) for x, y in zip(v, o[1]))), name
        return (o[0] == "val" and rel(v, Fr(o[1]) * sc)), name
    if e[0] == "root":
        _, v, d, s = e
        if d is None:
            return (o[0] == "num" and rel(v ** c["p"], Fr(o[1]) ** c["q"], Fr(1, 10**8))), name
        if o[0] != "val" or tuple(o[3]) != tuple(d):
            return False, name
        sc = si.si_scale(o[2], o[3])
        return rel(v ** c["p"], (Fr(o[1]) * sc) ** c["q"], Fr(1, 10**8)), name
    return None, name


# ------------------------------------------------------------------------------ emission
def g_operand(t):
    if t[0] == "num":
        return "(ONum %s)" % g_float(t[1])
    if t[0] == "val":
        return "(OVal {| qv := %s; qu := %s; qd := %s |})" % (g_float(t[1]), si.g_usys(t[2]), si.g_dim(t[3]))
    return "(OArr {| av := %s; au := %s; ad := %s |})" % (g_list([g_float(x) for x in t[1]]), si.g_usys(t[2]), si.g_dim(t[3]))


def g_tree(t):
    k = t[0]
    if k in ("num", "val", "arr"):
        return "(Leaf %s)" % g_operand(t)
    if k == "bin":
        return "(Bin %s %s %s)" % (t[1], g_tree(t[2]), g_tree(t[3]))
    if k == "neg":
        return "(Neg %s)" % g_tree(t[1])
    if k == "abs":
        return "(Abs %s)" % g_tree(t[1])
    if k == "pow":
        return "(PowZ %s (%d))" % (g_tree(t[1]), t[2])
    raise ValueError(k)


def emit(c, o):
    if c["kind"] == "expr":
        gc = "(CExpr %s)" % g_tree(c["tree"])
    elif c["kind"] == "cmp":
        gc = "(CCmp %s %s %s)" % (c["op"], g_tree(c["a"]), g_tree(c["b"]))
    else:
        gc = "(CPowQ %s (%d) %d%%positive)" % (g_operand(c["a"]), c["p"], c["q"])
    if o[0] == "raise":
        go = "ORaise5"
    elif o[0] == "bool":
        go = "(OBool %s)" % ("true" if o[1] else "false")
    elif o[0] in ("num", "val", "arr"):
        go = "(OOp %s)" % g_operand(o)
    else:
        go = "(OBool false)" if c["kind"] != "cmp" else "ORaise5"    # unexpected result type: never accepted
    return gc, go


# ------------------------------------------------------------------------------ generation
def rnd_mag(rng):
    return rng.choice([-1, 1]) * round(rng.uniform(1, 10), 3) * 10.0 ** rng.randint(-3, 3)


def rnd_dim(rng, lo=-2, hi=2):
    return [rng.randint(lo, hi) for _ in range(3)]


def rnd_leaf(rng, kind, dim=None, n=None, systems=None):
    if kind == "num":
        return ["num", rng.choice([rnd_mag(rng), float(rng.randint(1, 9)), rng.randint(1, 9)])]
    sys3 = list(rng.choice(systems))
    dim = list(dim) if dim is not None else rnd_dim(rng)
    if kind == "val":
        return ["val", rnd_mag(rng), sys3, dim]
    n = rng.randint(0, 4) if n is None else n
    return ["arr", [rnd_mag(rng) for _ in range(n)], sys3, dim]


def rnd_tree(rng, depth, systems, dim=None):
    if depth == 0 or rng.random() < 0.25:
        kind = rng.choice(["val", "val", "arr", "num"])
        return rnd_leaf(rng, kind, dim=dim, n=2, systems=systems)
    r = rng.random()
    if r < 0.08:
        return ["neg", rnd_tree(rng, depth - 1, systems, dim)]
    if r < 0.16:
        return ["abs", rnd_tree(rng, depth - 1, systems, dim)]
    if r < 0.24:
        return ["pow", rnd_leaf(rng, rng.choice(["val", "val", "num", "arr"]), n=2, systems=systems), rng.choice([-2, -1, 2, 3])]
    op = rng.choice(OPS)
    if op in ("Add", "Sub", "Mod"):
        d = dim if dim is not None else rnd_dim(rng)
        a = rnd_tree(rng, depth - 1, systems, d)
        b = rnd_tree(rng, depth - 1, systems, d if rng.random() < 0.9 else rnd_dim(rng))
    else:
        a = rnd_tree(rng, depth - 1, systems, None)
        b = rnd_tree(rng, depth - 1, systems, None)
    return ["bin", op, a, b]


def gen_cases(rng, tier):
    systems = si.all_systems()
    cases = []
    draws = 30 if tier == "quick" else 400
    kinds = ["num", "val", "arr"]
    # every dispatch path: (left kind, right kind) x operator, direct and reflected
    for lk in kinds:
        for rk in kinds:
            if lk == "num" and rk == "num":
                continue
            for op in OPS:
                for i in range(draws):
                    d = rnd_dim(rng)
                    mism = (i % 4 == 3)
                    d2 = rnd_dim(rng) if mism else d
                    n1 = rng.randint(0, 4)
                    n2 = n1 if i % 5 != 4 else n1 + 1
                    a = rnd_leaf(rng, lk, dim=d, n=n1, systems=systems)
                    b = rnd_leaf(rng, rk, dim=d2, n=n2, systems=systems)
                    cases.append({"kind": "expr", "tree": ["bin", op, a, b], "group": "path:%s_%s_%s" % (lk, op, rk)})
    # unary and power paths
    for k in ("val", "arr", "num"):
        for i in range(draws):
            leaf = rnd_leaf(rng, k, systems=systems)
            cases.append({"kind": "expr", "tree": ["neg", leaf], "group": "path:neg_" + k})
            cases.append({"kind": "expr", "tree": ["abs", leaf], "group": "path:abs_" + k})
            cases.append({"kind": "expr", "tree": ["pow", leaf, rng.choice([-3, -2, -1, 0, 1, 2, 3])], "group": "path:pow_" + k})
            if k != "num":
                p, q = rng.choice([(1, 2), (3, 2), (-1, 2), (1, 4), (1, 1), (5, 2)])
                lf = list(leaf)
                if k == "val":
                    lf[1] = abs(lf[1])
                    lf[3] = [rng.choice([-4, -2, 0, 2, 4, 1]) for _ in range(3)]
                cases.append({"kind": "powq", "a": lf, "p": p, "q": q, "group": "path:powq_" + k})
    # comparisons
    for op in CMP:
        for lk, rk in (("val", "val"), ("val", "num"), ("num", "val")):
            for i in range(draws):
                d = rnd_dim(rng)
                a = rnd_leaf(rng, lk, dim=d, systems=systems)
                b = rnd_leaf(rng, rk, dim=(d if i % 4 != 3 else rnd_dim(rng)), systems=systems)
                if i % 3 == 0 and lk == "val" and rk == "val":      # physically equal, same system: exact in floats
                    b = ["val", a[1], a[2], a[3]]
                if i % 3 == 1 and "num" in (lk, rk):
                    if lk == "num":
                        a = ["num", b[1]]
                    else:
                        b = ["num", a[1]]
                cases.append({"kind": "cmp", "op": op, "a": a, "b": b, "group": "path:%s_%s_%s" % (lk, op, rk)})
    # the same two units systems again and again, in every dimension (in use a model has a handful of systems: whatever is
    # remembered per pair of systems meets that pair again with another dimension)
    few = [list(rng.choice(systems)) for _ in range(3)]
    for rep in range(40 if tier == "quick" else 1500):
        sa, sb = rng.sample(few, 2)
        d = rnd_dim(rng)
        a = ["val", rnd_mag(rng), list(sa), list(d)]
        b = ["val", rnd_mag(rng), list(sb), list(d)]
        if rep % 2 == 0:
            cases.append({"kind": "cmp", "op": rng.choice(sorted(CMP)), "a": a, "b": b, "group": "recurring_systems:cmp"})
        else:
            cases.append({"kind": "expr", "tree": ["bin", rng.choice(OPS), a, ["arr", [rnd_mag(rng), rnd_mag(rng)], list(sb), list(d)] if rep % 4 == 1 else b],
                          "group": "recurring_systems:arith"})
    # random trees
    ntrees = 600 if tier == "quick" else 20000
    for i in range(ntrees):
        cases.append({"kind": "expr", "tree": rnd_tree(rng, rng.randint(2, 4), systems), "group": "tree"})
    return cases


def build_items(cases, run=None):
    import strengths.units as U
    items = []
    for c in cases:
        if expected(c) is None:
            if run:
                run.count("discarded_degenerate")
            continue
        o = observe(U, c)
        try:
            gc, go = emit(c, o)
        except ValueError:           # non-finite value produced by the implementation
            if run:
                run.count("discarded_nonfinite")
            continue
        items.append({"case": c, "obs": o, "gcase": gc, "gobs": go})
    return items


def check(run):
    rng = random.Random(run.seed)
    cases = gen_cases(rng, run.tier)
    items = build_items(cases, run)
    for it in items:
        run.count(it["case"]["group"])
    paths = sorted(k for k in run.distribution if k.startswith("path:"))
    run.extra["dispatch_paths"] = len(paths)
    run.rule = ("every dispatch path (left kind x right kind over number/UnitValue/UnitArray minus number-number, x + - * / %%, "
                "plus neg/abs/** on each kind, fractional exponents, six comparisons x three pairings): %d paths, each with operands "
                "drawn from all 1100 systems, dims in [-2,2]^3, magnitudes 1e-3..1e4, matching and mismatched dimensions and array "
                "lengths; then random expression trees of depth <= 4. Cases on a discontinuity (modulo/comparison within 1e-6, "
                "cancellation below 1/10, zero divisor, or a forward bound on the accumulated float error above 1e-11 - nested modulo "
                "amplifies it) are discarded and counted. non-trivial = the model evaluated the case "
                "(Coq branch > 0); distinct = distinct canonical case" % len(paths))
    run.assumptions = ["binary64 results compared with exact rational arithmetic at relative 1e-9 (1e-8 for roots)",
                       "division / modulo by zero and non-finite results are outside the property's quantifier and not generated"]
    core.decide(run, items, IMPORTS, "accept_C05", oracle)


def replay(run, payload):
    items = build_items([payload["case"]])
    core.decide(run, items, IMPORTS, "accept_C05", oracle)
