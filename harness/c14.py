"""C14 - initial-state processing: the recorded t = 0 state for every mode x engine x space type, replayed from the seed."""
import random

from . import core, si, sysgen, trajgen, engine_build, child
from .core import g_float, g_list, g_nat, g_z

IMPORTS = "Engine Prng InitState AcceptC14"
MODE = {"none": "MNone", "Poisson": "MPoisson", "redist": "MRedist"}


def effective_mode(c):
    if c["init"] == "auto":
        return "none" if c["engine"] == "euler" else "redist"
    return c["init"]


def make_case(rng):
    kind = rng.choice(["euler", "tauleap", "gillespie", "gillespie", "tauleap"])
    c = trajgen.make_sim_case(rng, kind=kind, max_cells=6, max_steps=3)
    c["units"][2] = "molecule"
    n = len(c["state"])
    style = rng.choice(["sub", "small", "small", "mixed", "int", "big"])
    pool = {"sub": [0.0, 0.0, 0.125, 0.25, 0.375, 0.0625], "small": [0.0, 0.5, 1.25, 2.0, 3.5, 0.75, 6.0], "mixed": [0.0, 0.25, 5.5, 11.0, 14.5, 40.0],
            "int": [0.0, 1.0, 2.0, 5.0, 9.0], "big": [0.0, 3.5, 99.5, 100.0, 120.5, 250.0]}[style]
    c["state"] = [rng.choice(pool) for _ in range(n)]
    huge = False
    if rng.random() < 0.2:
        # totals on the edge: a species' amounts add up to an integer, or to 2^-33 below or above one (all dyadic: the sums are exact) -
        # the number of molecules is the floor of the total, not the nearest integer
        nc = sysgen.ncells(c["desc"])
        for s_ in range(n // nc):
            eps = rng.choice([-1.0, 0.0, 1.0]) * 2.0 ** -33
            k = rng.choice([1, 1, 2, 3, 7])
            row = [0.0] * nc
            if nc >= 2 and rng.random() < 0.7:
                i, j = rng.sample(range(nc), 2)
                row[i], row[j] = k / 2.0, k / 2.0 + eps
            else:
                row[rng.randrange(nc)] = k + eps
            c["state"][s_ * nc:(s_ + 1) * nc] = row
        style = "edge_totals"
    if style != "edge_totals" and rng.random() < 0.06:       # (not on top of the 2^-33 offsets: binary64 could not hold such a sum)
        # amounts beyond the range of a 32-bit integer (5 fmol in one cell): totals are still floors of the real totals
        k0 = rng.randrange(n)
        c["state"][k0] = rng.choice([3.0e9, 2147483648.0, 2.5e9 + 0.5, 6.0e9])
        style = "beyond_int32"
        huge = True
    c["state_units"] = list(c["units"])          # handed over in engine units: no conversion rounding
    c["init"] = rng.choice(["auto", "auto", "redist", "Poisson", "none"])
    if huge and c["init"] == "Poisson" and rng.random() < 0.85:
        c["init"] = "redist"           # (the Poisson mode does not return from such a mean - finding F23 - and each such case costs a time-out)
    c["style"] = style
    c["policy"] = "on_iteration"
    c["seed"] = rng.choice([rng.randrange(2 ** 31), rng.randrange(2 ** 31), 0, 1, 2 ** 31 - 1])
    return c


def observe(c):
    import strengths
    script = trajgen.build_script(strengths, c)
    eng = engine_build.engine(c["engine"])
    eng.setup(script)
    out = eng.get_output()
    out2 = None
    # the same set-up again: reproducible for a given seed
    eng.setup(script)
    out2 = eng.get_output()
    eng.finalize()
    size = len(c["state"])
    d1 = [float(v) for v in out.data.value][:size]
    d2 = [float(v) for v in out2.data.value][:size]
    return {"sample0": d1, "again": d2, "data_units": si.sys_of(out.data.units.sys)}


def emit(c, o):
    desc = c["desc"]
    n, ns = sysgen.ncells(desc), len(desc["species"])
    blocks = max(2, (len(c["state"]) * 40) // 624 + 2)
    gc = "{| c14_ns := %s; c14_nc := %s; c14_sm := %s; c14_mode := %s; c14_seed := %s; c14_blocks := %s |}" % (
        g_nat(ns), g_nat(n), g_list([g_float(v) for v in c["state"]]), MODE[effective_mode(c)], g_z(c["seed"]), g_nat(blocks))
    return "(%s)" % gc, "(%s, %s)" % (g_list([g_float(v) for v in o["sample0"]]), g_list([g_float(v) for v in o["again"]]))


def oracle(it):
    c, o = it["case"], it["obs"]
    name = ("t = 0 state: 'none' passes the state through; stochastic modes give non-negative integers, zero stays zero; redistribution keeps "
            "each species' floored total; reproducible for a given seed")
    if "error" in o:
        return False, name + " [raised: %s]" % o["error"]
    x, y = c["state"], o["sample0"]
    if y != o["again"]:
        return False, name + " [two set-ups with the same seed differ]"
    mode = effective_mode(c)
    n, ns = sysgen.ncells(c["desc"]), len(c["desc"]["species"])
    if mode == "none":
        return (x == y), name + (" [state changed]" if x != y else "")
    if any(v < 0 or v != int(v) for v in y):
        return False, name + " [not non-negative integers: %s]" % y
    if any(a == 0 and b != 0 for a, b in zip(x, y)):
        return False, name + " [a molecule was placed where the real-valued amount is zero: %s -> %s]" % (x, y)
    if mode == "redist":
        for s in range(ns):
            import math
            if sum(y[s * n:(s + 1) * n]) != math.floor(sum(x[s * n:(s + 1) * n])):
                return False, name + " [species %d: total %s, floor of real total %s]" % (s, sum(y[s * n:(s + 1) * n]), math.floor(sum(x[s * n:(s + 1) * n])))
    return None, name


def build_items(cases, run=None):
    engine_build.build(False)
    obs = child.map_children("c14", "observe", cases, timeout=15, confirm=True)
    items = []
    for c, o in zip(cases, obs):
        if "timeout" in o or "crash" in o:
            o = {"error": "set-up did not return / the process died", "sample0": [-1.0], "again": [-1.0]}
        elif "error" in o:
            o = {"error": o["error"], "sample0": [-1.0], "again": [-1.0]}
        gc, go = emit(c, o)
        items.append({"case": c, "obs": o, "gcase": gc, "gobs": go, "nontrivial": effective_mode(c) != "none"})
    return items


def check(run):
    rng = random.Random(run.seed)
    sysgen.POOLS["space"] = ["cm", "mm", "dmm", "cmm", "µm", "nm", "dm"]
    n = 400 if run.tier == "quick" else 10000
    cases = [make_case(rng) for _ in range(n)]
    items = build_items(cases, run)
    for it in items:
        c = it["case"]
        run.count("mode:%s:%s" % (c["engine"], c["init"]))
        run.count("amounts:" + c["style"])
        run.count("space:" + c["desc"]["space"]["type"])
    run.rule = ("random systems (1-3 species x 1-6 cells, grid and graph) with real-valued initial amounts below one molecule / small fractional / "
                "integral / straddling the thresholds 12 and 100 / above 100, empty cells, seeds incl. 0, 1 and 2^31-1, four "
                "init_state_processing values x three engines; observed: sample 0 of the trajectory, twice. Coq replays the processing from the "
                "seed (mt19937, generate_canonical, small-mean Poisson, the correction loop) where every amount is below 12 (branch 1) and "
                "checks the stated invariants otherwise (branch 2). non-trivial = a mode other than 'none'")
    core.decide(run, items, IMPORTS, "accept_C14", oracle, known=known, shard=25)


def known(it):
    """F23: the 'Poisson' mode hands std::poisson_distribution<int> a mean beyond the range of int: set-up does not return"""
    c, o = it["case"], it["obs"]
    if "error" in o and "did not return" in o["error"] and c["init"] == "Poisson" and max(c["state"]) >= 2.0 ** 31:
        return ("F23", "init_state_processing='Poisson' with an amount of 2^31 molecules or more in one entry: std::poisson_distribution<int> "
                       "is handed a mean beyond the range of int and set-up does not return")
    return None


def replay(run, payload):
    sysgen.POOLS["space"] = ["cm", "mm", "dmm", "cmm", "µm", "nm", "dm"]
    core.decide(run, build_items([payload["case"]]), IMPORTS, "accept_C14", oracle, known=known)
