"""Run observations of the real implementation in child processes with a per-case timeout.
A hang, a crash (signal, sanitizer abort) and a Python exception are all first-class observations:
   {"timeout": secs} | {"crash": returncode, "stderr": tail} | whatever the function returned.
Worker protocol: `python -m harness.child <module> <function>`; one JSON case per stdin line, one
JSON result per stdout line (prefixed by a marker so that stray prints of the package do not confuse it)."""
import json
import os
import select
import subprocess
import sys
import time

from . import core

MARK = "@@RESULT@@ "


def _worker_main(modname, funcname):
    import importlib
    core.use_repo()
    mod = importlib.import_module("harness." + modname)
    f = getattr(mod, funcname)
    for line in sys.stdin:
        line = line.strip()
        if not line:
            continue
        case = json.loads(line)
        try:
            res = f(case)
        except Exception as e:  # the function itself is expected to catch what it wants to observe
            res = {"error": "%s: %s" % (type(e).__name__, str(e)[:200])}
        sys.stdout.write(MARK + json.dumps(res) + "\n")
        sys.stdout.flush()


class _Worker:
    def __init__(self, modname, funcname, env):
        self.args = [core.PY, "-u", "-m", "harness.child", modname, funcname]
        self.env = env
        self.p = None
        self.buf = b""
        self.job = None
        self.t0 = 0.0

    def start(self):
        self.p = subprocess.Popen(self.args, cwd=str(core.VERIF), env=self.env, stdin=subprocess.PIPE,
                                  stdout=subprocess.PIPE, stderr=subprocess.PIPE)
        os.set_blocking(self.p.stdout.fileno(), False)
        os.set_blocking(self.p.stderr.fileno(), False)
        self.buf = b""
        self.err = b""

    def kill(self):
        if self.p:
            try:
                self.p.kill()
            except OSError:
                pass
            try:
                self.p.wait(timeout=5)
            except Exception:
                pass
            for s in (self.p.stdin, self.p.stdout, self.p.stderr):
                try:
                    s.close()
                except Exception:
                    pass
        self.p = None

    def send(self, idx, case):
        if self.p is None or self.p.poll() is not None:
            self.kill()
            self.start()
        self.job = idx
        self.t0 = time.time()
        try:
            self.p.stdin.write((json.dumps(case) + "\n").encode())
            self.p.stdin.flush()
        except BrokenPipeError:
            pass

    def drain_err(self):
        try:
            d = self.p.stderr.read()
            if d:
                self.err = (self.err + d)[-6000:]
        except Exception:
            pass

    def poll(self):
        """returns a result dict if the current job finished (normally or not), else None"""
        self.drain_err()
        try:
            d = self.p.stdout.read()
        except Exception:
            d = None
        if d:
            self.buf += d
        while b"\n" in self.buf:
            line, self.buf = self.buf.split(b"\n", 1)
            s = line.decode("utf-8", "replace")
            if s.startswith(MARK):
                res = json.loads(s[len(MARK):])
                if isinstance(res, dict) and res.pop("_retire", False):
                    # the observation asks for a fresh process for whoever comes next (it exercised behaviour that may have left
                    # the process in an undefined state - a later case must not inherit a corrupted heap and be blamed for it)
                    self.kill()
                return res
        rc = self.p.poll()
        if rc is not None:
            time.sleep(0.05)
            self.drain_err()
            res = {"crash": rc, "stderr": self.err.decode("utf-8", "replace")[-3000:]}
            self.kill()
            return res
        return None


def map_children(modname, funcname, cases, timeout=30, workers=None, env=None, confirm=False):
    """[f(case) for case in cases], each in a child (workers are reused until they hang or die).
    With confirm=True (the checks for which a time-out is part of the verdict) a case that ran out of time is run once more, with few
    other children beside it and four times the limit, before it is reported as {"timeout": ...}: a loaded machine must not look like
    a hang.  Checks that merely discard what did not finish leave it off."""
    res = _map_children(modname, funcname, cases, timeout, workers, env)
    if confirm:
        late = [k for k, r in enumerate(res) if isinstance(r, dict) and "timeout" in r]
        if late:
            again = _map_children(modname, funcname, [cases[k] for k in late], timeout * 4, 4, env)
            for k, r in zip(late, again):
                if isinstance(r, dict) and "timeout" in r:
                    r["timeout"] = timeout          # reported against the nominal limit; it did not return within 4x that either
                res[k] = r
    return res


def _map_children(modname, funcname, cases, timeout, workers, env):
    workers = workers or core.NPROC
    e = dict(os.environ)
    e["PYTHONPATH"] = str(core.REPO / "src")
    e.setdefault("PYTHONHASHSEED", "0")
    e["VERIF_REPO"] = str(core.REPO)
    if env:
        e.update(env)
    n = len(cases)
    results = [None] * n
    ws = [_Worker(modname, funcname, e) for _ in range(min(workers, max(1, n)))]
    nxt = 0
    busy = []
    idle = list(ws)
    try:
        while nxt < n or busy:
            while idle and nxt < n:
                w = idle.pop()
                w.send(nxt, cases[nxt])
                busy.append(w)
                nxt += 1
            fds = [w.p.stdout for w in busy if w.p]
            if fds:
                select.select(fds, [], [], 0.2)
            still = []
            for w in busy:
                r = w.poll()
                if r is not None:
                    results[w.job] = r
                    idle.append(w)
                elif time.time() - w.t0 > timeout:
                    w.drain_err()
                    results[w.job] = {"timeout": timeout, "stderr": w.err.decode("utf-8", "replace")[-1500:]}
                    w.kill()
                    idle.append(w)
                else:
                    still.append(w)
            busy = still
    finally:
        for w in ws:
            w.kill()
    return results


if __name__ == "__main__":
    _worker_main(sys.argv[1], sys.argv[2])
