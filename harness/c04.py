"""C04 - physical results do not depend on the units used to state or report them.
A random system is described as a dictionary; re-descriptions that change only units (bare numbers re-scaled with the level's
declared system, bare numbers made explicit and the declarations scrambled, one system inherited from the top) are loaded with
rdscript_from_dict; initial state, chemostats, rate of change and a short Euler trajectory are compared in SI."""
import math
import random
from fractions import Fraction as Fr

from . import core, si, sysgen, dictgen, engine_build, child, trajgen
from .core import g_float, g_list, g_bool

IMPORTS = "AcceptC04"


def make_case(rng):
    desc = sysgen.rand_desc(rng, max_species=3, max_cells=5, reactions=True, max_reactions=2, cubic=True)
    n, ns = sysgen.ncells(desc), len(desc["species"])
    if rng.random() < 0.6:
        vals = [rng.choice([0.0, 1.0, 2.0, 5.0, 0.5, 12.0]) for _ in range(n * ns)]
        desc["state"] = {"bare": vals} if rng.random() < 0.5 else {"v": vals, "sys": sysgen.rand_sys(rng)}
    if rng.random() < 0.5:
        desc["chemostats"] = [rng.random() < 0.2 for _ in range(n * ns)]
    units = sysgen.rand_sys(rng)
    sc = {"desc": desc, "units": units, "policy": "on_t_sample", "seed": 1, "engine": "euler"}
    # a time step at which something happens, in the script's time unit
    probe = {"desc": desc, "units": units, "dt": 1.0, "t_sample": [0.0], "t_max": 1.0, "interval": 1.0}
    e = trajgen.tune_time_step(probe, target=0.05)
    dt = probe["dt"]
    steps = rng.randint(2, 6)
    sc["dt"] = {"bare": dt}
    # requested times and t_max lie half a step away from every step time: re-scaling rounds them, and a comparison t >= t_sample
    # exactly on a step could otherwise flip by one step
    sc["t_sample"] = {"bare": [0.0, dt * (steps // 2 + 0.5), dt * (steps + 0.5)]}
    sc["t_max"] = {"bare": dt * (steps + 0.5)} if rng.random() < 0.5 else None
    sc["interval"] = {"bare": dt}
    sc["exotic"] = abs(e) > 40
    variants = []
    pools = sysgen.POOLS
    rs = lambda: [rng.choice(pools["space"]), rng.choice(pools["time"]), rng.choice(pools["amount"])]
    for kind in ("rescale", "explicit", "inherit", "script_units", "rescale"):
        v = dict(sc)
        if kind == "rescale":
            v["desc"] = dictgen.change_units(desc, rs)
            style = "explicit"
        elif kind == "explicit":
            v = dictgen.make_script_explicit(sc, rs())
            v["desc"] = dictgen.make_explicit(desc, rs)
            style = "explicit"
        elif kind == "inherit":
            S = rs()
            v = dictgen.change_script_units(sc, S)
            v["desc"] = dictgen.change_units(desc, lambda: S)
            style = "inherit_when_equal"
        else:
            v = dictgen.change_script_units(sc, rs())
            style = "explicit"
        variants.append({"kind": kind, "style": style, "script": v})
    return {"base": sc, "variants": variants}


def observe_one(sc, style):
    import strengths
    import strengths.kinetics as kin
    U = strengths.units
    d = dictgen.script_dict(sc, style)
    script = strengths.rdscript_from_dict(d)
    system = script.system
    out = {}
    st = system.state
    a = si.si_scale(si.sys_of(st.units.sys), si.dim_of(st.units.dim))
    out["state"] = [float(Fr(float(v)) * a) for v in st.value]
    out["chemostats"] = [bool(v) for v in system.chemostats]
    common = U.UnitsSystem(space="µm", time="s", quantity="molecule")
    r = kin.compute_dstatedt(system, system.state, apply_chemostats=True, units_system=common)
    out["dstate"] = [float(v) for v in r.convert(common).value]
    tr = strengths.simulate_script(script, engine=engine_build.engine("euler")) if hasattr(strengths, "simulate_script") else None
    if tr is None:
        from strengths.simulate import simulate_script
        tr = simulate_script(script, engine=engine_build.engine("euler"))
    out["t"] = [float(v) for v in tr.t.convert("s").value]
    out["data"] = [float(v) for v in tr.data.convert("molecule").value]
    # the stochastic engines work in molecules whatever the script's amount unit: the state they start from (recorded at t = 0, no
    # processing) is the system's state, in any units
    for kind in ("tauleap", "gillespie"):
        s0 = strengths.RDScript(system=system, t_sample=[0.0], t_max=0.0, time_step=script.time_step, rng_seed=1,
                                init_state_processing="none", units_system=script.units_system)
        eng = engine_build.engine(kind)
        eng.setup(s0)                 # the record of t = 0 is taken at set-up: no step is needed (a system without any event would never end)
        t0 = eng.get_output()
        eng.finalize()
        out["data"] += [float(v) for v in t0.data.convert("molecule").value]
        out.setdefault("t0", []).append([float(v) for v in t0.data.convert("molecule").value])
    return out


def observe(c):
    res = {}
    try:
        res["base"] = observe_one(c["base"], "explicit")
    except Exception as e:
        return {"error": "base: %s: %s" % (type(e).__name__, str(e)[:100])}
    res["variants"] = []
    for v in c["variants"]:
        try:
            res["variants"].append(observe_one(v["script"], v["style"]))
        except Exception as e:
            res["variants"].append({"error": "%s: %s" % (type(e).__name__, str(e)[:100])})
    return res


def g_obs(o):
    if "error" in o:
        return "None"
    return "(Some (%s, %s, %s, %s, %s))" % (g_list([g_float(v) for v in o["state"]]), g_list([g_bool(b) for b in o["chemostats"]]),
                                            g_list([g_float(v) for v in o["dstate"]]), g_list([g_float(v) for v in o["t"]]),
                                            g_list([g_float(v) for v in o["data"]]))


def finite(o):
    return "error" in o or all(math.isfinite(v) for k in ("state", "dstate", "t", "data") for v in o[k])


def oracle(it):
    o = it["obs"]
    name = ("descriptions that differ only in units give the same initial state, chemostat map, rate of change, Euler trajectory and starting state of the stochastic engines in common units")
    base = o["base"]

    def close(a, b, fl=0.0):
        if len(a) != len(b):
            return False
        m = max([abs(x) for x in a] + [0.0])
        return all(abs(x - y) <= 1e-6 * (abs(x) + abs(y)) + 1e-9 * m + fl for x, y in zip(a, b))
    for v, ov in zip(it["case"]["variants"], o["variants"]):
        if "error" in ov:
            return False, name + " [variant '%s' raised: %s]" % (v["kind"], ov["error"])
        smax = max([abs(x) for x in base["state"]] + [abs(x) for x in base["data"]] + [0.0])
        dt_si = float(Fr(it["case"]["base"]["dt"]["bare"]) * si.SI_TIME[it["case"]["base"]["units"][1]])
        floors = {"state": 0.0, "t": 0.0, "data": 1e-8 * smax, "dstate": 1e-8 * smax / dt_si if dt_si > 0 else 0.0}
        for key in ("state", "dstate", "t", "data"):
            if not close(base[key], ov[key], floors[key]):
                return False, name + " [variant '%s': %s differs]" % (v["kind"], key)
        if base["chemostats"] != ov["chemostats"]:
            return False, name + " [variant '%s': chemostats differ]" % v["kind"]
        for kind, t0 in zip(("tauleap", "gillespie"), ov.get("t0", [])):
            if not close(ov["state"], t0, 1e-8 * smax):
                return False, name + " [variant '%s': the %s engine starts from another state than the system's]" % (v["kind"], kind)
    return True, name


def build_items(cases, run=None):
    engine_build.build(False)
    obs = child.map_children("c04", "observe", cases, timeout=60)
    items = []
    for c, o in zip(cases, obs):
        if "timeout" in o or "crash" in o or "error" in o:
            if run:
                run.count("discarded:" + ("timeout" if "timeout" in o else "crash" if "crash" in o else "base_description_rejected"))
                if "error" in o and run.distribution.get("discarded:base_description_rejected", 0) <= 3:
                    run.notes.append("base description rejected: " + o["error"])
            continue
        if not finite(o["base"]) or not all(finite(v) for v in o["variants"]):
            if run:
                run.count("discarded:nonfinite")
            continue
        b = o["base"]
        dt_si = float(Fr(c["base"]["dt"]["bare"]) * si.SI_TIME[c["base"]["units"][1]])
        smax = max([abs(v) for v in b["state"]] + [abs(v) for v in b["data"]] + [0.0])
        # absolute floors for quantities that are sums of cancelling terms: 1e-9 of (largest amount) / (time step) for rates
        gc = "(%s, %s, %s)" % (g_obs(b), g_float(1e-9 * smax / dt_si if dt_si > 0 else 0.0), g_float(1e-9 * smax))
        go = g_list([g_obs(v) for v in o["variants"]])
        items.append({"case": c, "obs": o, "gcase": gc, "gobs": go, "nontrivial": any(abs(v) > 0 for v in o["base"]["dstate"])})
    return items


def check(run):
    rng = random.Random(run.seed)
    n = 120 if run.tier == "quick" else 2500
    cases = []
    while len(cases) < n:
        c = make_case(rng)
        if not c["base"].pop("exotic"):
            cases.append(c)
    items = build_items(cases, run)
    for it in items:
        d = it["case"]["base"]["desc"]
        run.count("space:" + d["space"]["type"])
        run.count("reactions:%d" % len(d["reactions"]))
        run.count("explicit_state:%s" % (d.get("state") is not None))
    run.rule = ("random systems (1-3 species, 0-2 reversible reactions of orders 0..4, 1-3 environments with per-environment dictionaries, grid or "
                "graph with per-node / per-edge units) described as dictionaries with a units declaration at every level (script, system, "
                "network, space, species, reaction, node, edge), quantities bare or explicit strings, optional explicit state and chemostats; five "
                "re-descriptions each: bare numbers re-scaled to new random systems at every level (twice), all bare numbers made explicit and "
                "all declarations scrambled, one random system declared at the script level only and inherited by everything below, only the "
                "script's (output / time) units changed. Loaded with rdscript_from_dict; system.state, chemostats, "
                "compute_dstatedt(apply_chemostats=True) and a 2-6 step Euler trajectory compared with the base description in SI (verdict in "
                "Coq, relative 1e-6 + 1e-9 of the vector's magnitude). non-trivial = a non-zero derivative")
    core.decide(run, items, IMPORTS, "accept_C04", oracle, shard=20)


def replay(run, payload):
    core.decide(run, build_items([payload["case"]]), IMPORTS, "accept_C04", oracle)
