"""C09 - sampling contract: which states are recorded, when, in what shape; completion of fixed-step runs."""
import ctypes
import math
import random
from fractions import Fraction as Fr

from . import core, si, sysgen, trajgen, engine_build, child
from .core import g_float, g_list, g_nat, g_bool

IMPORTS = "Sampling AcceptC09"

POL = {"on_t_sample": "OnTSample", "on_iteration": "OnIteration", "on_interval": "OnInterval", "no_sampling": "NoSampling"}
# time units whose conversion to the script's unit is exact in binary64 (x 60, x 3600): the clock stays exact
EXACT_FROM = {"s": ["s", "min", "h"], "min": ["min", "h"]}


def make_case(rng, tier):
    kind = rng.choice(["euler", "tauleap", "gillespie"])
    while True:
        c = trajgen.make_sim_case(rng, kind=kind, max_cells=4, max_steps=10)
        c["units"][1] = rng.choice(["s", "s", "min", "ms", "h"])
        e = trajgen.tune_time_step(c, target=0.05)
        if abs(e) <= 40:          # rate constants in exotic units can be astronomically large or small: not what C09 is about
            break
    dt = c["dt"]
    nsteps = rng.randint(1, 40 if tier == "quick" else 200)
    q = dt / 4
    # requested times: sorted, duplicates, clusters inside one step, possibly starting after 0 / ending beyond t_max
    ts = []
    t = 0 if rng.random() < 0.6 else rng.randint(1, 12)
    for _ in range(rng.randint(1, 10)):
        ts.append(t * q)
        t += rng.choice([0, 0, 1, 1, 2, 3, 4, 4, 5, 8, 13])
    pol = rng.choice(list(POL))
    if rng.random() < 0.5:
        tmax = None                                   # "default": the last requested time
    else:
        tmax = rng.choice([0, nsteps * 4, nsteps * 4 + 2, nsteps * 4 - 1, rng.randint(0, nsteps * 4 + 8)]) * q
    interval = rng.choice([2, 4, 4, 6, 8, 10, 12, 5, 3]) * q
    calls = []
    budget = nsteps + 6
    while budget > 0:
        r = rng.random()
        if r < 0.55:
            calls.append(["iterate"])
            budget -= 1
        elif r < 0.75:
            k = rng.randint(1, 6)       # iterate_n(0) is a lifecycle corner: C10
            calls.append(["iterate_n", k])
            budget -= max(k, 1)
        elif r < 0.9:
            calls.append(["sample"])
            budget -= 1
        else:
            calls.append(["run", 0])      # breathe = 0 ms: exactly one iteration
            budget -= 1
    if kind == "gillespie" or rng.random() < 0.3:
        calls = [["iterate"]] * (nsteps + 3)
    # the output is also fetched along the way in a third of the runs (a pure read: what is fetched at the end is unaffected)
    c["peeks"] = [rng.random() < 0.3 for _ in calls] if rng.random() < 0.35 else []
    # in which unit each time quantity is handed to RDScript
    su = c["units"][1]
    def unit():
        return rng.choice(EXACT_FROM.get(su, [su])) if rng.random() < 0.4 else su
    c.update({"dt": dt, "t_sample": ts, "t_max": tmax, "policy": pol, "interval": interval, "calls": calls,
              "time_units": {"dt": unit(), "t_sample": unit(), "t_max": unit(), "interval": unit()}})
    return c


def _in_unit(U, value, unit_from, unit_to, array=False):
    """a quantity equal to `value` (script unit) written in unit_from, such that the library's conversion gives it back exactly"""
    f = {"s": 1, "min": 60, "h": 3600}
    if unit_from == unit_to:
        k = 1
    else:
        k = f[unit_from] // f[unit_to]
    tu = U.Units(U.UnitsSystem(time=unit_from), U.UnitsDimensions(time=1))
    if array:
        return U.UnitArray([v / k for v in value], tu)
    return U.UnitValue(value / k, tu)


def _same(a, b):
    """same number (a diverged Euler run may hold inf / nan: then the same non-finite value)"""
    return a == b or (a != a and b != b) or abs(a - b) <= 1e-9 * (abs(a) + abs(b))


def observe(c):
    import strengths
    U = strengths.units
    state = U.UnitArray(list(c["state"]), U.Units(sysgen.py_sys(U, c["state_units"]), U.UnitsDimensions(quantity=1)))
    system = sysgen.build_system(strengths, c["desc"], state=state, chemostats=[int(b) for b in c["chs"]])
    us = sysgen.py_sys(U, c["units"])
    su = c["units"][1]
    tu = c["time_units"]
    kw = {}
    if c["t_max"] is not None:
        kw["t_max"] = _in_unit(U, c["t_max"], tu["t_max"], su)
    script = strengths.RDScript(system=system, t_sample=_in_unit(U, c["t_sample"], tu["t_sample"], su, array=True),
                                time_step=_in_unit(U, c["dt"], tu["dt"], su), sampling_policy=c["policy"],
                                sampling_interval=_in_unit(U, c["interval"], tu["interval"], su), rng_seed=c["seed"],
                                init_state_processing="none", units_system=us, **kw)
    # what the engine is handed (must be the intended values exactly)
    handed = {"dt": float(script.time_step.convert(us).value), "t_sample": [float(v) for v in script.t_sample.convert(us).value],
              "t_max": float(script.t_max.convert(us).value), "interval": float(script.sampling_interval.convert(us).value)}
    eng = engine_build.engine(c["engine"])
    lib = eng._lib
    lib.engineexport_get_time.restype = ctypes.c_double
    size = len(c["state"])

    def cur_state():
        buf = (ctypes.c_double * size)()
        lib.engineexport_get_state(buf)
        return [float(v) for v in buf]
    eng.setup(script)
    states = {0.0: cur_state()}
    flags, prog, clock = [], [], [0.0]
    single = all(k[0] in ("iterate", "sample", "run") for k in c["calls"])
    for k_call, call in enumerate(c["calls"]):
        if call[0] == "iterate":
            eng.iterate()
        elif call[0] == "iterate_n":
            eng.iterate_n(call[1])
        elif call[0] == "run":
            eng.run(0)
        else:
            eng.sample()
        if k_call < len(c.get("peeks", [])) and c["peeks"][k_call]:
            eng.get_output()
        flags.append(bool(eng.is_complete()))
        prog.append(float(eng.get_progress()))
        t = float(lib.engineexport_get_time())
        clock.append(t)
        if single:
            states[t] = cur_state()
    out = eng.get_output()
    eng.finalize()
    data_units = si.sys_of(out.data.units.sys)
    t_rec = [float(v) for v in out.t.value]
    data = [float(v) for v in out.data.value]
    # the recorded samples in engine units (amount: molecules for the stochastic engines)
    eu = list(c["units"])
    if c["engine"] != "euler":
        eu[2] = "molecule"
    back = out.data.convert(sysgen.py_sys(U, eu)).value if len(data) else []
    content = []
    for n, tr in enumerate(t_rec):
        if single and tr in states and len(data) >= (n + 1) * size:
            ref = states[tr]
            got = [float(v) for v in back[n * size:(n + 1) * size]]
            content.append(all(_same(a, b) for a, b in zip(ref, got)))
        else:
            content.append(True)
    # the t = 0 record holds the initial state as given (processing "none")
    init_ok = True
    if t_rec and t_rec[0] == 0.0 and len(data) >= size:
        given = state.convert(sysgen.py_sys(U, eu)).value
        got0 = back[:size]
        init_ok = all(_same(float(a), float(b)) for a, b in zip(given, got0))
        content[0] = content[0] and init_ok
    return {"t": t_rec, "flags": flags, "progress": prog, "clock": clock, "ndata": len(data), "size": size, "content": content,
            "handed": handed, "t_units": si.sys_of(out.t.units.sys), "data_units": data_units}


def g_call(k):
    return {"iterate": "CIterate", "run": "CIterate", "sample": "CSample"}.get(k[0]) or "(CIterateN %s)" % g_nat(k[1])


def emit(c, o):
    tmax = c["t_max"] if c["t_max"] is not None else (c["t_sample"][-1] if c["t_sample"] else 0.0)
    steps = []
    if c["engine"] == "gillespie":
        ck = o["clock"]
        for a, b, fl in zip(ck, ck[1:], o["flags"]):
            steps.append(g_opt_q(Fr(b) - Fr(a)) if b != a else "None")
        if not steps:
            steps = ["None"]
    gc = ("{| c9_pol := %s; c9_ts := %s; c9_int := %s; c9_tmax := %s; c9_dt := %s; c9_calls := %s; c9_steps := %s |}" % (
        POL[c["policy"]], g_list([g_float(v) for v in c["t_sample"]]), g_float(c["interval"]), g_float(tmax), g_float(c["dt"]),
        g_list([g_call(k) for k in c["calls"]]), g_list(steps)))
    go = ("{| o9_times := %s; o9_flags := %s; o9_progress := %s; o9_final_t := %s; o9_ndata := %s; o9_state_size := %s; o9_content := %s |}" % (
        g_list([g_float(v) for v in o["t"]]), g_list([g_bool(b) for b in o["flags"]]), g_list([g_float(v) for v in o["progress"]]),
        g_float(o["clock"][-1]), g_nat(o["ndata"]), g_nat(o["size"]), g_list([g_bool(b) for b in o["content"]])))
    return "(%s)" % gc, "(%s)" % go


def g_opt_q(fr):
    # an exact difference of two doubles: numerator / power of two
    p, q = fr.numerator, fr.denominator
    e = q.bit_length() - 1
    assert q == 1 << e
    while p.bit_length() > 62:      # cannot happen for clock differences of dyadic magnitudes we generate; keep exactness or fail
        raise ValueError("clock increment needs more than 62 bits")
    return "(Some (flp %d%%uint63 (%d)))" % (p, -e)


# ------------------------------------------------------------------------------ independent oracle (from the statement)
def oracle(it):
    c, o = it["case"], it["obs"]
    name = ("one time per sample, nsamples x nspecies x ncells values, times strictly increasing for policy records / never decreasing with "
            "explicit samples, the t=0 record holds the initial state, requested times covered by the first step at or after them, "
            "interval and per-iteration records, fixed-step runs stop after the first step beyond t_max")
    if "error" in o:
        return False, name + " [raised: %s]" % o["error"]
    t = o["t"]
    if o["ndata"] != len(t) * o["size"]:
        return False, name + " [len(data) = %d for %d samples of size %d]" % (o["ndata"], len(t), o["size"])
    if any(b < a for a, b in zip(t, t[1:])):
        return False, name + " [times decrease: %s]" % t
    manual = any(k[0] == "sample" for k in c["calls"])
    if not manual and any(b <= a for a, b in zip(t, t[1:])):
        return False, name + " [policy records with equal times: %s]" % t
    if not all(o["content"]):
        return False, name + " [a record does not hold the state of its step / the initial state]"
    tmax = c["t_max"] if c["t_max"] is not None else c["t_sample"][-1]
    ck = o["clock"]
    if c["engine"] != "gillespie":
        dt = c["dt"]
        # number of iterations requested
        req = sum(1 if k[0] in ("iterate", "run") else (k[1] if k[0] == "iterate_n" else 0) for k in c["calls"])
        n_expected = min(req, math.floor(tmax / dt) + 1) if tmax >= 0 else req
        if ck[-1] != n_expected * dt:
            return False, name + " [performed %r/dt = %r steps, expected %d]" % (ck[-1], ck[-1] / dt, n_expected)
        done = n_expected * dt > tmax >= 0
        if o["flags"] and o["flags"][-1] != done:
            return False, name + " [completion flag %r, expected %r]" % (o["flags"][-1], done)
        steps = [k * dt for k in range(n_expected + 1)]
        if not manual:
            if c["policy"] == "on_iteration":
                exp = steps
            elif c["policy"] == "no_sampling":
                exp = []
            elif c["policy"] == "on_t_sample":
                exp = sorted(set(min(s for s in steps if s >= tau) for tau in c["t_sample"] if any(s >= tau for s in steps)))
            else:
                I = c["interval"]
                exp = sorted(set(min(s for s in steps if s >= m * I) for m in range(0, int(steps[-1] / I) + 2)
                                 if any(s >= m * I for s in steps)))
            if t != exp:
                return False, name + " [recorded times %s, expected %s]" % (t, exp)
    return True, name


def build_items(cases, run=None):
    engine_build.build(False)
    obs = child.map_children("c09", "observe", cases, timeout=20)
    items = []
    for c, o in zip(cases, obs):
        if "timeout" in o or "crash" in o:
            if run:
                run.count("discarded_timeout_or_crash")
            continue
        if "error" in o:
            o = {"error": o["error"], "t": [1e300], "flags": [], "progress": [], "clock": [0.0], "ndata": 0, "size": 0, "content": []}
        else:
            tmax = c["t_max"] if c["t_max"] is not None else c["t_sample"][-1]
            h = o["handed"]
            got = [h["dt"], h["t_max"], h["interval"]] + list(h["t_sample"])
            want = [c["dt"], tmax, c["interval"]] + list(c["t_sample"])
            if got != want and len(got) == len(want) and all(abs(a - b) <= 1e-9 * (abs(a) + abs(b)) for a, b in zip(got, want)):
                # the package converted a time quantity inexactly (last bits): outside what this generator promises; counted, not judged.
                # Anything further off (a time in the wrong unit, a dropped request) stays in and is judged against the script as stated
                if run:
                    run.count("discarded_inexact_conversion")
                continue
        try:
            gc, go = emit(c, o)
        except (ValueError, AssertionError, OverflowError):
            if run:
                run.count("discarded_nonfinite")
            continue
        items.append({"case": c, "obs": o, "gcase": gc, "gobs": go, "nontrivial": len(o["t"]) >= 2})
    return items


def check(run):
    rng = random.Random(run.seed)
    sysgen.POOLS["space"] = ["cm", "mm", "dmm", "cmm", "µm", "nm", "dm"]
    n = 400 if run.tier == "quick" else 8000
    cases = [make_case(rng, run.tier) for _ in range(n)]
    items = build_items(cases, run)
    for it in items:
        c = it["case"]
        run.count("engine:" + c["engine"])
        run.count("policy:" + c["policy"])
        run.count("space:" + c["desc"]["space"]["type"])
        run.count("tmax:" + ("default" if c["t_max"] is None else "explicit"))
        run.count("manual_samples:%s" % any(k[0] == "sample" for k in c["calls"]))
        run.count("records:%s" % min(len(it["obs"]["t"]), 5))
        if any(v != c["units"][1] for v in c["time_units"].values()):
            run.count("time_quantity_in_another_unit")
    run.rule = ("random small systems x {euler, tauleap, gillespie} x {grid, graph} x four policies; dyadic time step; requested times sorted with "
                "duplicates, clusters inside one step, first > 0, last before / beyond t_max (multiples of dt/4, so both on and between "
                "steps); t_max default or explicit incl. exactly on a step and 0; interval a multiple of dt/4; call sequences mixing iterate, "
                "iterate_n(k), run(0), sample, continuing after completion; time quantities handed over in s / min / h (exact conversions "
                "only; others are discarded and counted); observed: trajectory.t, len(data), is_complete and get_progress after every call, "
                "the engine clock, and (for single-iteration call sequences) that each record holds the state the engine had at its time and "
                "the t=0 record the initial state. Gillespie: the model is driven by the observed clock increments. non-trivial = >= 2 records")
    core.decide(run, items, IMPORTS, "accept_C09", oracle, shard=40)


def replay(run, payload):
    sysgen.POOLS["space"] = ["cm", "mm", "dmm", "cmm", "µm", "nm", "dm"]
    items = build_items([payload["case"]])
    core.decide(run, items, IMPORTS, "accept_C09", oracle)
