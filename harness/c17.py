"""C17 - trajectory accessors and sample-index look-ups, on trajectories built directly from arrays."""
import itertools
import random
from fractions import Fraction as Fr

from . import core, si, sysgen
from .core import g_float, g_list, g_nat, g_bool

IMPORTS = "Units System Trajectory AcceptC06 AcceptC05 AcceptC17"
POL = {"closest": "LClosest", "infeq": "LInfeq", "supeq": "LSupeq"}


class _Pos:
    def __init__(self, x, y, z):
        self.x, self.y, self.z = x, y, z


RAISED = -1.0e300      # stands for "the accessor raised" among the values read


def _desc(S, C, kind, rng):
    sp = ({"type": "grid", "w": C, "h": 1, "d": 1, "per": [False] * 3, "env": [0] * C, "vol": {"bare": 1.0}, "units": ["µm", "s", "molecule"]}
          if kind == "grid" else
          {"type": "graph", "nodes": [{"vol": {"bare": 1.0}, "env": 0, "units": ["µm", "s", "molecule"]} for _ in range(C)],
           "edges": [], "units": ["µm", "s", "molecule"]})
    if kind == "grid":
        # any factorisation of the cell count into three axes (the coordinate forms below then exercise both strides)
        fs = [(w, h, C // (w * h)) for w in range(1, C + 1) if C % w == 0 for h in range(1, C // w + 1) if (C // w) % h == 0]
        w, h, d = rng.choice(fs)
        sp.update(w=w, h=h, d=d)
    return {"envs": ["e0"], "net_units": ["µm", "s", "molecule"], "sys_units": ["µm", "s", "molecule"],
            "species": [{"label": "ABCDE"[k], "units": ["µm", "s", "molecule"], "D": {"scalar": {"bare": 0.0}},
                         "dens": {"scalar": {"bare": 0.0}}, "chstt": {"scalar": False}} for k in range(S)],
            "reactions": [], "space": sp}


def observe(c):
    import strengths
    U = strengths.units
    N, S, C = c["N"], c["S"], c["C"]
    system = sysgen.build_system(strengths, c["desc"])
    du = U.Units(sysgen.py_sys(U, c["dunits"]), U.UnitsDimensions(quantity=1))
    tu = U.Units(sysgen.py_sys(U, c["tunits"]), U.UnitsDimensions(time=1))
    src, tsrc = U.UnitArray(list(c["data"]), du), U.UnitArray(list(c["ts"]), tu)
    if c.get("foreign_script"):
        # the trajectory of a coarse-grained run: its script describes another system (here: one cell more, a species less or more)
        # than the one the data are laid out on
        other = sysgen.build_system(strengths, _desc(S % 3 + 1, C + 1, c["desc"]["space"]["type"], random.Random(C)))
        tr = strengths.RDTrajectory(data=src, t_sample=tsrc, system=system, script=strengths.RDScript(system=other, t_sample=[0.0]))
    else:
        tr = strengths.RDTrajectory(data=src, t_sample=tsrc, system=system)
    if c.get("scribble"):
        # the caller reuses its buffers after handing them over: whatever the trajectory then holds, every accessor must still
        # agree with direct indexing of its data (read back below and used as the reference array)
        src.value[:] = [-(7.0 + i) for i in range(len(c["data"]))]
    sp = c["desc"]["space"]
    units_ok = True

    def chk(u):
        nonlocal units_ok
        if si.sys_of(u.sys) != tuple(c["dunits"]) or si.dim_of(u.dim) != (0, 0, 1):
            units_ok = False

    def sref(s, k):
        return [s, c["desc"]["species"][s]["label"], system.network.species[s]][k % 3]

    def cref(cell, k):
        if sp["type"] != "grid":
            return cell
        xyz = (cell % sp["w"], (cell // sp["w"]) % sp["h"], cell // (sp["w"] * sp["h"]))
        import numpy as np
        f = (0.25, 0.5, 0.75)[k % 3]
        forms = [lambda: cell, lambda: xyz, lambda: _Pos(*xyz), lambda: list(xyz),
                 # coordinates as numpy rows of narrow and wide integer types (a sum formed before widening would wrap)
                 lambda: np.array(xyz, dtype=np.uint8), lambda: np.array(xyz, dtype=np.int16), lambda: np.array(xyz, dtype=np.int64),
                 lambda: np.array(xyz, dtype=np.float64), lambda: np.int64(cell),
                 # a point inside the cell: the grid's own bounds test and index both truncate coordinate by coordinate
                 lambda: (xyz[0] + f, xyz[1] + f, xyz[2] + f), lambda: _Pos(xyz[0] + f, xyz[1] + f, xyz[2] + f),
                 lambda: np.array([xyz[0] + f, xyz[1] + f, xyz[2] + f], dtype=np.float32)]
        return forms[k % len(forms)]()
    o = {"points": [], "states": [], "wholes": [], "trajs": [], "merged": [], "lookups": []}
    k = 0
    # the last sample is also what index -1 names (the usual way to ask for the final state)
    smp = lambda n: -1 if (n == N - 1 and c.get("last_as_minus_one")) else n
    for n in range(N):
        for s in range(S):
            for cell in range(C):
                k += 1
                try:
                    r = tr.get_trajectory_point(sref(s, k), smp(n), cref(cell, k))
                    chk(r.units)
                    o["points"].append(float(r.value))
                except Exception as e:           # a valid reference that the accessor refuses: a value nothing equals
                    o["points"].append(RAISED)
                    o.setdefault("raised", []).append("get_trajectory_point: %s: %s" % (type(e).__name__, str(e)[:80]))
    for n in range(N):
        for s in range(S):
            k += 1
            try:
                r = tr.get_state(sref(s, k), smp(n))
                chk(r.units)
                o["states"].append([float(v) for v in r.value])
            except Exception as e:
                o["states"].append([RAISED] * C)
                o.setdefault("raised", []).append("get_state: %s: %s" % (type(e).__name__, str(e)[:80]))
        try:
            r = tr.get_state(None, smp(n))
            chk(r.units)
            o["wholes"].append([float(v) for v in r.value])
        except Exception as e:
            o["wholes"].append([RAISED] * (S * C))
            o.setdefault("raised", []).append("get_state (whole): %s: %s" % (type(e).__name__, str(e)[:80]))
    for s in range(S):
        for cell in range(C):
            k += 1
            try:
                r = tr.get_trajectory(sref(s, k), cref(cell, k))
                chk(r.units)
                o["trajs"].append([float(v) for v in r.value])
            except Exception as e:
                o["trajs"].append([RAISED] * N)
                o.setdefault("raised", []).append("get_trajectory: %s: %s" % (type(e).__name__, str(e)[:80]))
        try:
            r = tr.get_trajectory(sref(s, k), merge=True)
            chk(r.units)
            o["merged"].append([float(v) for v in r.value])
        except Exception as e:
            o["merged"].append([RAISED] * N)
            o.setdefault("raised", []).append("get_trajectory (merged): %s: %s" % (type(e).__name__, str(e)[:80]))
    o["units_ok"] = units_ok
    o["direct"] = [float(v) for v in tr.data.value]
    for q in c["queries"]:
        t = q["t"] if q["units"] is None else U.UnitValue(q["t"], U.Units(sysgen.py_sys(U, q["units"]), U.UnitsDimensions(time=1)))
        try:
            r = tr.get_sample_index(t, q["policy"])
            o["lookups"].append(None if r is None else int(r))
        except Exception as e:
            o["lookups"].append("raise:" + type(e).__name__)
    return o


def ref_data(c, o):
    """the array every accessor is compared with: what was handed over, or - when the caller scribbled over its buffer afterwards -
    the trajectory's own data as read back at the end"""
    if c.get("scribble") and len(o.get("direct", [])) == len(c["data"]):
        return o["direct"]
    return c["data"]


def emit(c, o):
    gq = g_list(["{| q_t := %s; q_units := %s; q_policy := %s |}" % (
        g_float(q["t"]), "None" if q["units"] is None else "(Some %s)" % si.g_usys(q["units"]), POL[q["policy"]])
        for q in c["queries"]])
    gc = ("{| c_traj := {| tN := %s; tS := %s; tC := %s; tdata := %s; tunits := %s |}; c_ts := %s; c_tunits := %s; c_queries := %s |}" % (
        g_nat(c["N"]), g_nat(c["S"]), g_nat(c["C"]), g_list([g_float(v) for v in ref_data(c, o)]), si.g_usys(c["dunits"]),
        g_list([g_float(v) for v in c["ts"]]), si.g_usys(c["tunits"]), gq))
    ll = lambda rows: g_list([g_list([g_float(v) for v in row]) for row in rows])
    lk = []
    for r in o["lookups"]:
        lk.append("None" if r is None else ("(Some 999999%nat)" if isinstance(r, str) else "(Some %s)" % g_nat(r)))
    go = ("{| o_points := %s; o_states := %s; o_wholes := %s; o_trajs := %s; o_merged := %s; o_units_ok := %s; o_lookups := %s |}" % (
        g_list([g_float(v) for v in o["points"]]), ll(o["states"]), ll(o["wholes"]), ll(o["trajs"]), ll(o["merged"]),
        g_bool(o["units_ok"]), g_list(lk)))
    return "(%s)" % gc, "(%s)" % go


def oracle(it):
    try:
        return _oracle(it)
    except (IndexError, TypeError, ValueError) as e:        # an accessor handed back something of another shape than the one asked for
        return False, "accessors return blocks of the right shape [%s: %s]" % (type(e).__name__, str(e)[:60])


def _oracle(it):
    c, o = it["case"], it["obs"]
    name = "point / state / trajectory accessors and direct indexing at n*S*C + s*C + c agree; merged = sum over cells; look-ups return closest (ties earlier) / last not after / first not before, None when no such sample"
    N, S, C = c["N"], c["S"], c["C"]
    d = ref_data(c, o)
    if o.get("raised"):
        return False, name + " [%s]" % o["raised"][0]
    if not o["units_ok"]:
        return False, name + " [units]"
    k = 0
    for n in range(N):
        for s in range(S):
            for cell in range(C):
                if o["points"][k] != d[n * S * C + s * C + cell]:
                    return False, name + " [point]"
                if o["states"][n * S + s][cell] != o["points"][k] or o["trajs"][s * C + cell][n] != o["points"][k]:
                    return False, name + " [accessors disagree]"
                k += 1
        if o["wholes"][n] != d[n * S * C:(n + 1) * S * C]:
            return False, name + " [whole state]"
    for s in range(S):
        for n in range(N):
            exp = sum(Fr(d[n * S * C + s * C + cell]) for cell in range(C))
            if abs(Fr(o["merged"][s][n]) - exp) > Fr(1, 10**9) * abs(exp):
                return False, name + " [merged]"
    ts = [Fr(v) for v in c["ts"]]
    for q, r in zip(c["queries"], o["lookups"]):
        t = Fr(q["t"])
        if q["units"] is not None:
            t = t * si.SI_TIME[q["units"][1]] / si.SI_TIME[c["tunits"][1]]
        if q["policy"] == "infeq":
            cand = [i for i in range(len(ts)) if ts[i] <= t]
            exp = cand[-1] if cand else None
        elif q["policy"] == "supeq":
            cand = [i for i in range(len(ts)) if ts[i] >= t]
            exp = cand[0] if cand else None
        else:
            exp = min(range(len(ts)), key=lambda i: (abs(ts[i] - t), i)) if ts else None
        if r != exp:
            return False, name + " [look-up %s of %s]" % (q["policy"], q["t"])
    return True, name


def rand_queries(rng, ts, tunits, strict):
    qs = []
    pols = ["closest", "infeq", "supeq"] if strict else ["infeq", "supeq"]
    pts = []
    if ts:
        pts += [ts[0] - 1.0, ts[-1] + 1.0] + list(ts)
        for a, b in zip(ts, ts[1:]):
            if b > a:
                pts += [(a + b) / 2, a + (b - a) * 0.25, a + (b - a) * 0.75]
    else:
        pts = [0.0, 1.0]
    for t in pts:
        for pol in pols:
            qs.append({"t": float(t), "units": None, "policy": pol})
    # other time units: only strictly between samples or well outside (conversion rounding cannot flip the answer)
    for a, b in zip(ts, ts[1:]):
        if b > a:
            u = rng.choice(si.TIME)
            f = float(Fr(1) * si.SI_TIME[tunits[1]] / si.SI_TIME[u])
            t = (a + (b - a) * rng.choice([0.25, 0.75])) * f
            qs.append({"t": t, "units": ["µm", u, "molecule"], "policy": rng.choice(pols)})
    return qs


def gen_cases(rng, tier):
    cases = []
    maxn = 4 if tier == "quick" else 5
    shapes = list(itertools.product(range(1, maxn + 1), repeat=3)) * (1 if tier == "quick" else 6)
    for (N, S, C) in shapes:
        for kind in ("grid", "graph"):
            data = [float(i) for i in range(N * S * C)] if rng.random() < 0.7 else [sysgen.rand_val(rng, zero=0.1) for _ in range(N * S * C)]
            strict = rng.random() < 0.6
            ts, t = [], float(rng.randint(-2, 2))
            for _ in range(N):
                ts.append(t)
                t += rng.choice([0.5, 1.0, 2.0, 3.0]) if strict else rng.choice([0.0, 0.0, 1.0, 2.0])
            tunits = ["µm", rng.choice(si.TIME), "molecule"]
            cases.append({"N": N, "S": S, "C": C, "desc": _desc(S, C, kind, rng), "data": data, "dunits": sysgen.rand_sys(rng),
                          "ts": ts, "tunits": tunits, "queries": rand_queries(rng, ts, tunits, strict), "strict": strict,
                          "scribble": rng.random() < 0.4, "foreign_script": rng.random() < 0.35, "last_as_minus_one": rng.random() < 0.5})
    # grids with more than 255 cells and both strides above one (narrow coordinate types, fractional coordinates)
    for (w, h, d) in ((16, 17, 1), (7, 6, 7)):
        N, S, C = rng.randint(1, 2), rng.randint(1, 2), w * h * d
        desc = _desc(S, C, "grid", rng)
        desc["space"].update(w=w, h=h, d=d)
        ts = [float(i) for i in range(N)]
        tunits = ["µm", "s", "molecule"]
        cases.append({"N": N, "S": S, "C": C, "desc": desc, "data": [float(i) for i in range(N * S * C)], "dunits": sysgen.rand_sys(rng),
                      "ts": ts, "tunits": tunits, "queries": rand_queries(rng, ts, tunits, True), "strict": True, "scribble": False})
    # empty trajectories
    for kind in ("grid", "graph"):
        cases.append({"N": 0, "S": 1, "C": 2, "desc": _desc(1, 2, kind, rng), "data": [], "dunits": ["µm", "s", "molecule"],
                      "ts": [], "tunits": ["µm", "s", "molecule"], "queries": rand_queries(rng, [], ["µm", "s", "molecule"], True), "strict": True})
    return cases


def build_items(cases):
    items = []
    for c in cases:
        o = observe(c)
        gc, go = emit(c, o)
        items.append({"case": c, "obs": o, "gcase": gc, "gobs": go})
    return items


def known(it):
    return None


def check(run):
    rng = random.Random(run.seed)
    cases = gen_cases(rng, run.tier)
    items = build_items(cases)
    calls = 0
    for it in items:
        c = it["case"]
        calls += c["N"] * c["S"] * c["C"] + c["N"] * (c["S"] + 1) + c["S"] * (c["C"] + 1) + len(c["queries"])
        run.count("ts:" + ("strict" if c["strict"] else "with_duplicates"))
        it["nontrivial"] = c["N"] * c["S"] * c["C"] > 1
    run.extra["api_calls"] = calls
    maxn = 4 if run.tier == "quick" else 5
    run.exhaustive = True
    run.extra["exhaustive_scope"] = "all shapes (N,S,C) with each <= %d, grid and graph systems, every (species, sample, cell) triple" % maxn
    run.rule = ("exhaustive over shapes N,S,C <= %d x {grid, graph}: every triple through get_trajectory_point / get_state / get_trajectory "
                "(species by index, label, object; cell by index, tuple, list, x/y/z object, numpy rows of uint8 / int16 / int64 / float64, numpy integer, "
                "points inside the cell as tuple / object / float32 row, in rotation; grids of every factorisation of the cell count plus 16x17x1 and 7x6x7), whole-state and merged accessors; "
                "sample times strictly increasing or with duplicates, queries before / after / on / between samples and midpoints, "
                "bare and in other time units (only where conversion rounding cannot flip the answer), three policies (closest only on "
                "strictly increasing times). One case = one trajectory; non-trivial = more than one value" % maxn)
    core.decide(run, items, IMPORTS, "accept_C17", oracle, known=known, shard=40)


def replay(run, payload):
    items = build_items([payload["case"]])
    core.decide(run, items, IMPORTS, "accept_C17", oracle, known=known)
