"""C19 - reaction equations: text -> stoichiometry -> text, orders, rate-constant dimensions, split, K, network validity."""
import math
import random
from fractions import Fraction as Fr

from . import core, si, sysgen
from .core import g_float, g_list, g_nat, g_bool, g_z

IMPORTS = "Units System EngineBuild ReactionText AcceptC06 AcceptC19"

LABEL_CHARS = "ABCabcXYZ019-_>.µé*/"
SPACES = [" ", " ", " ", "  ", "\t", "\n", "\xa0", " ", "\x1f", ""]


def g_str(s):
    return "[" + "; ".join("%d%%N" % ord(c) for c in s) + "]"


def g_side(d):
    return g_list(["(%s, %s)" % (g_str(k), g_z(v)) for k, v in d])


def rand_label(rng):
    n = rng.choice([1, 1, 1, 2, 2, 3, 5])
    while True:
        l = "".join(rng.choice(LABEL_CHARS) for _ in range(n))
        if "->" not in l:
            return l


def rand_equation(rng):
    """mostly well-formed equations with arbitrary spacing, plus a malformed stream"""
    def term():
        lab = rand_label(rng)
        r = rng.random()
        if r < 0.45:
            return lab
        coef = rng.choice(["2", "3", "0", "1", "9", "10", "-1", "+2", "1_0", "07", "2.0", "x", "_1", "1_", "--2", ""])
        return coef + rng.choice(SPACES[:6] + [" "]) + lab
    def side():
        k = rng.choice([0, 1, 1, 2, 2, 3, 4])
        ts = [term() for _ in range(k)]
        sep = lambda: rng.choice(SPACES) + "+" + rng.choice(SPACES)
        s = ""
        for i, t in enumerate(ts):
            s += (sep() if i else "") + t
        return rng.choice(SPACES) + s + rng.choice(SPACES)
    r = rng.random()
    s = side() + "->" + side()
    if r < 0.06:
        s = s.replace("->", rng.choice(["-", ">", "=>", "<->", "->->", "- >"]), 1)
    elif r < 0.10:
        s = s + "->" + side()
    elif r < 0.14:
        s = s.replace("+", "++", 1)
    elif r < 0.17:
        s = s.replace("+", " ", 1)
    elif r < 0.20:
        s = "+" + s
    return s


def observe_parse(s):
    import strengths
    try:
        r = strengths.Reaction(s)
        return {"subs": [[k, int(v)] for k, v in r.substrates.items()], "prods": [[k, int(v)] for k, v in r.products.items()]}
    except Exception as e:
        return {"raised": "%s: %s" % (type(e).__name__, str(e)[:60])}


TRICKY = ["a->b", "->", "x->", "A\xa0B", "p\u2003q", "u\x1fv", "\x85", "A B", "a+b", "t\tu"]


def rand_reaction(rng):
    labels = []
    while len(labels) < rng.randint(1, 5):
        l = rand_label(rng) if rng.random() < 0.9 else rng.choice(TRICKY)
        if l not in labels:
            labels.append(l)
    def side():
        d = []
        for l in rng.sample(labels, rng.randint(0, min(4, len(labels)))):
            d.append([l, rng.choice([0, 1, 1, 1, 2, 2, 3, 5, 9])])
        return d
    return {"subs": side(), "prods": side(), "labels": labels + ["absent"]}


def observe_print(c):
    import strengths
    # the labels must be permitted by the package's own label rule (the one applied to species and reaction labels)
    for l in c["labels"]:
        try:
            strengths.Species(label=l)
        except Exception:
            return {"label_not_permitted": l}
    try:
        r = strengths.Reaction([dict((k, v) for k, v in c["subs"]), dict((k, v) for k, v in c["prods"])])
        text = r.to_string()
        try:
            r2 = strengths.Reaction(text)
            rep = {"subs": [[k, int(v)] for k, v in r2.substrates.items()], "prods": [[k, int(v)] for k, v in r2.products.items()]}
        except Exception as e:
            rep = None
        return {"text": text, "reparsed": rep, "ssto": [int(v) for v in r.ssto(c["labels"])], "psto": [int(v) for v in r.psto(c["labels"])],
                "dsto": [int(v) for v in r.dsto(c["labels"])], "order": int(r.order()), "rorder": int(r.rorder())}
    except Exception as e:
        return {"raised": "%s: %s" % (type(e).__name__, str(e)[:60])}


def emit_parse(s, o):
    if "raised" in o:
        return g_str(s), "None"
    return g_str(s), "(Some (%s, %s))" % (g_side(o["subs"]), g_side(o["prods"]))


def emit_print(c, o):
    gc = "((%s, %s), %s)" % (g_side(c["subs"]), g_side(c["prods"]), g_list([g_str(l) for l in c["labels"]]))
    if "raised" in o:
        o = {"text": "\x00", "reparsed": None, "ssto": [], "psto": [], "dsto": [], "order": -1, "rorder": -1}
    rep = "None" if o["reparsed"] is None else "(Some (%s, %s))" % (g_side(o["reparsed"]["subs"]), g_side(o["reparsed"]["prods"]))
    go = "{| o19_text := %s; o19_reparsed := %s; o19_ssto := %s; o19_psto := %s; o19_dsto := %s; o19_order := %s; o19_rorder := %s |}" % (
        g_str(o["text"]), rep, g_list([g_z(v) for v in o["ssto"]]), g_list([g_z(v) for v in o["psto"]]), g_list([g_z(v) for v in o["dsto"]]),
        g_z(o["order"]), g_z(o["rorder"]))
    return gc, "(%s)" % go


def oracle_parse(it):
    return None, "the equation text denotes exactly the written per-species coefficients, repeats summed (model of Reaction._fromstring)"


def oracle_print(it):
    c, o = it["case"], it["obs"]
    name = "printing a reaction and parsing the text back gives the same stoichiometry; net change = products - reactants; orders = coefficient sums"
    if "raised" in o:
        return False, name + " [raised: %s]" % o["raised"]
    sub, prod = dict(c["subs"]), dict(c["prods"])
    if o["reparsed"] is None:
        return False, name + " [the printed text %r does not parse]" % o["text"]
    rs, rp = dict(o["reparsed"]["subs"]), dict(o["reparsed"]["prods"])
    for l in c["labels"]:
        if rs.get(l, 0) != sub.get(l, 0) or rp.get(l, 0) != prod.get(l, 0):
            return False, name + " [label %r: %r -> %r after print/parse of %r]" % (l, (sub.get(l, 0), prod.get(l, 0)), (rs.get(l, 0), rp.get(l, 0)), o["text"])
    if o["dsto"] != [prod.get(l, 0) - sub.get(l, 0) for l in c["labels"]]:
        return False, name + " [dsto]"
    if o["order"] != sum(sub.values()) or o["rorder"] != sum(prod.values()):
        return False, name + " [order]"
    return True, name


# ------------------------------------------------------------------------------ rate constants, split, K, network validity
def observe_k(c):
    """c: order n, reverse order m, units system, kf / kr descriptions"""
    import strengths
    U = strengths.units
    out = {}
    labels = ["S%d" % i for i in range(8)]
    sub = {labels[i % 3]: 0 for i in range(3)}
    for i in range(c["n"]):
        sub[labels[i % 3]] += 1
    prod = {labels[3 + i % 3]: 0 for i in range(3)}
    for i in range(c["m"]):
        prod[labels[3 + i % 3]] += 1
    us = sysgen.py_sys(U, c["units"])
    def mk1(q, dim, text):
        if "bare" in q:
            return q["bare"]
        if text:
            return "%r %s" % (float(q["v"]), si.units_str(q["sys"], dim))
        return U.UnitValue(q["v"], U.Units(sysgen.py_sys(U, q["sys"]), U.UnitsDimensions(space=dim[0], time=dim[1], quantity=dim[2])))

    def mk(q, dim):
        """the same constant in the form the case asks for: an object, its text, or a per-environment dictionary of either"""
        form = c.get("form", "object")
        v = mk1(q, dim, "text" in form)
        return {"a": v, "default": mk1(q, dim, False)} if "dict" in form else v

    def entry(v):
        return v["a"] if isinstance(v, dict) else v
    try:
        if "setter" in c.get("form", ""):
            r = strengths.Reaction([sub, prod], units_system=us)
            r.kf = mk(c["kf"], c["kf_dim"])
            r.kr = mk(c["kr"], c["kr_dim"])
        else:
            r = strengths.Reaction([sub, prod], kf=mk(c["kf"], c["kf_dim"]), kr=mk(c["kr"], c["kr_dim"]), units_system=us)
    except Exception as e:
        return {"raised": "%s: %s" % (type(e).__name__, str(e)[:60])}

    def q(v):
        v = entry(v)
        return [float(v.value), si.sys_of(v.units.sys), si.dim_of(v.units.dim)]
    out["kf"], out["kr"] = q(r.kf), q(r.kr)
    rf, rr = r.split()
    out["split"] = [q(rf.kf), q(rf.kr), q(rr.kf), q(rr.kr)]
    out["split_sto"] = [[int(v) for v in rf.dsto(labels)], [int(v) for v in rr.dsto(labels)], [int(v) for v in r.dsto(labels)]]
    out["split_units"] = [si.sys_of(rf.units_system), si.sys_of(rr.units_system)]
    try:
        rk = r
        if isinstance(r.kf, dict) or isinstance(r.kr, dict):
            # the equilibrium constant is defined for single constants: taken from the reaction with this environment's entries
            # (when they have the right dimension - otherwise the acceptance above is already the finding)
            good = tuple(si.dim_of(entry(r.kf).units.dim)) == sysgen.kdim(c["n"]) and tuple(si.dim_of(entry(r.kr).units.dim)) == sysgen.kdim(c["m"])
            rk = strengths.Reaction([sub, prod], kf=entry(r.kf), kr=entry(r.kr), units_system=us) if good else None
        K = rk.K if rk is not None else None
        out["K"] = None if K is None else [float(K.value), si.sys_of(K.units.sys), si.dim_of(K.units.dim)]
    except Exception as e:
        out["K"] = "raised: %s" % type(e).__name__
    return out


def make_k_case(rng):
    n, m = rng.randint(0, 8), rng.randint(0, 8)
    units = sysgen.rand_sys(rng)
    def k(order):
        good = sysgen.kdim(order)
        r = rng.random()
        dim = good
        if r < 0.2:                                   # a wrong dimension
            dim = list(good)
            dim[rng.randrange(3)] += rng.choice([-1, 1, 2])
            dim = tuple(dim)
        if rng.random() < 0.4 and dim == good:
            return {"bare": sysgen.rand_val(rng, zero=0.25)}, good
        return {"v": sysgen.rand_val(rng, zero=0.25), "sys": sysgen.rand_sys(rng, 0.2)}, dim
    kf, kfd = k(n)
    kr, krd = k(m)
    form = rng.choice(["object", "object", "text", "dict_object", "dict_text", "setter_object", "setter_dict_object", "setter_text"])
    return {"n": n, "m": m, "units": units, "kf": kf, "kf_dim": list(kfd), "kr": kr, "kr_dim": list(krd), "form": form}


def oracle_k(it):
    c, o = it["case"], it["obs"]
    name = ("kf / kr have dimension amount^(1-n) length^(3n-3) / time (bare numbers get these units in the reaction's system, others are rejected); "
            "split gives two irreversible reactions with the same constants and opposite net change; K = kf / kr")
    good = tuple(c["kf_dim"]) == sysgen.kdim(c["n"]) and tuple(c["kr_dim"]) == sysgen.kdim(c["m"])
    if "raised" in o:
        return (not good), name + (" [a constant of the right dimension was rejected: %s]" % o["raised"] if good else "")
    if not good:
        return False, name + " [a constant of dimension %s / %s was accepted for orders %d / %d]" % (c["kf_dim"], c["kr_dim"], c["n"], c["m"])
    def si_of(q):
        return Fr(q[0]) * si.si_scale(q[1], q[2])
    def given(q, dim):
        return Fr(q["bare"]) * si.si_scale(c["units"], dim) if "bare" in q else Fr(q["v"]) * si.si_scale(q["sys"], dim)
    def close(a, b):
        return abs(a - b) <= Fr(1, 10**9) * (abs(a) + abs(b))
    if tuple(o["kf"][2]) != sysgen.kdim(c["n"]) or tuple(o["kr"][2]) != sysgen.kdim(c["m"]):
        return False, name + " [dimension of the stored constant]"
    if not close(si_of(o["kf"]), given(c["kf"], sysgen.kdim(c["n"]))) or not close(si_of(o["kr"]), given(c["kr"], sysgen.kdim(c["m"]))):
        return False, name + " [value of the stored constant]"
    f, fr_, b, br = o["split"]
    if not (close(si_of(f), si_of(o["kf"])) and si_of(fr_) == 0 and close(si_of(b), si_of(o["kr"])) and si_of(br) == 0):
        return False, name + " [split constants]"
    d_f, d_b, d = o["split_sto"]
    if d_f != d or d_b != [-v for v in d]:
        return False, name + " [split stoichiometry]"
    if isinstance(o["K"], str):
        return False, name + " [K raised]"
    if si_of(o["kr"]) == 0:
        if o["K"] is not None:
            return False, name + " [K with kr = 0]"
    elif o["K"] is None or not close(si_of(o["K"]), si_of(o["kf"]) / si_of(o["kr"])):
        return False, name + " [K != kf / kr]"
    return True, name


def k_in_double_range(c):
    """kr and K = kf / kr, written in the units system of kf (where the implementation computes them), stay well inside binary64's normal range:
    decided on the case, not on what the implementation returned"""
    if tuple(c["kf_dim"]) != sysgen.kdim(c["n"]) or tuple(c["kr_dim"]) != sysgen.kdim(c["m"]):
        return True
    text = "text" in c.get("form", "")

    def given(q, dim):
        if "bare" in q:
            return Fr(q["bare"]), c["units"]
        # a constant written as text names no unit for a base with exponent 0: the parser then takes the default unit of that base
        sy = [u if (e != 0 or not text) else dflt for u, e, dflt in zip(q["sys"], dim, ("µm", "s", "molecule"))]
        return Fr(q["v"]), sy
    (vf, sf), (vr, sr) = given(c["kf"], c["kf_dim"]), given(c["kr"], c["kr_dim"])
    tabs = (si.SI_SPACE, si.SI_TIME, si.SI_AMOUNT)
    vals, f = [], Fr(1)
    for tab, a, b, e in zip(tabs, sr, sf, c["kr_dim"]):      # compute_conversion_factor: one power per base unit, multiplied up in this order
        p = (tab[a] / tab[b]) ** e
        f *= p
        vals += [p, f]
    kr_in_f = vr * f
    vals += [kr_in_f] + ([vf / kr_in_f] if kr_in_f != 0 else [])
    return all(v == 0 or Fr(10) ** -280 < abs(v) < Fr(10) ** 280 for v in vals)


def emit_k(c, o):
    def gq(q, dim):
        return sysgen.g_qty(q, c["units"], dim)
    gc = "(%s, %s, %s, (%s, %s, %s), (%s, %s, %s))" % (
        g_z(c["n"]), g_z(c["m"]), si.g_usys(c["units"]), gq(c["kf"], c["kf_dim"]), si.g_dim(c["kf_dim"]), g_bool("bare" in c["kf"]),
        gq(c["kr"], c["kr_dim"]), si.g_dim(c["kr_dim"]), g_bool("bare" in c["kr"]))
    if "raised" in o:
        return gc, "None"
    def go(q):
        v = q[0] if math.isfinite(q[0]) else 1e300       # a non-finite value where the case stays inside binary64: judged (and rejected), not dropped
        return "{| qv := %s; qu := %s; qd := %s |}" % (g_float(v), si.g_usys(q[1]), si.g_dim(q[2]))
    K = "None" if o["K"] is None or isinstance(o["K"], str) else "(Some %s)" % go(o["K"])
    return gc, "(Some (%s, %s, %s, %s, %s))" % (go(o["kf"]), go(o["kr"]), g_list([go(q) for q in o["split"]]), K,
                                                g_bool(o["split_sto"][0] == o["split_sto"][2] and o["split_sto"][1] == [-v for v in o["split_sto"][2]]
                                                       and all(tuple(u) == tuple(c["units"]) for u in o["split_units"]) and not isinstance(o["K"], str)))


# ------------------------------------------------------------------------------ network validity
def make_net_case(rng):
    labels = ["A", "B", "C", "D"][:rng.randint(1, 4)]
    species = list(labels)
    reactions = []
    for k in range(rng.randint(0, 3)):
        reactions.append({"sub": {rng.choice(labels): 1}, "prod": {rng.choice(labels): 1}, "label": rng.choice([None, None, "r%d" % k])})
    fault = rng.choice(["none", "none", "dup_species", "undeclared", "dup_reaction_label"])
    if fault == "dup_species" and species:
        species.append(rng.choice(species))
    elif fault == "undeclared":
        # the stranger on the reactant side, on the product side, or on both (a catalyst / autocatalyst nobody declared)
        a, b = rng.choice(labels), rng.choice(labels)
        where = rng.choice(["sub", "prod", "both", "both", "both_only"])
        sub = {a: 1} if where != "both_only" else {}
        prod = {b: rng.choice([1, 2])} if where != "both_only" else {}
        if where in ("sub", "both", "both_only"):
            sub["Z"] = rng.choice([1, 1, 2])
        if where in ("prod", "both", "both_only"):
            prod["Z"] = rng.choice([1, 2, 3])
        reactions.insert(rng.randrange(len(reactions) + 1), {"sub": sub, "prod": prod, "label": None})
    elif fault == "dup_reaction_label":
        reactions.append({"sub": {labels[0]: 1}, "prod": {}, "label": "dup"})
        reactions.append({"sub": {}, "prod": {labels[0]: 2}, "label": "dup"})
    return {"species": species, "reactions": reactions, "fault": fault}


def observe_net(c):
    import strengths
    try:
        strengths.RDNetwork(species=[strengths.Species(label=l) for l in c["species"]],
                            reactions=[strengths.Reaction([r["sub"], r["prod"]], label=r["label"]) for r in c["reactions"]])
        return {"accepted": True}
    except Exception as e:
        return {"accepted": False, "why": "%s: %s" % (type(e).__name__, str(e)[:60])}


def valid_net(c):
    sp = c["species"]
    labs = [r["label"] for r in c["reactions"] if r["label"] is not None]
    used = set(l for r in c["reactions"] for l in list(r["sub"]) + list(r["prod"]))
    return len(set(sp)) == len(sp) and len(set(labs)) == len(labs) and used <= set(sp)


def check(run):
    core.use_repo()
    rng = random.Random(run.seed)
    quick = run.tier == "quick"
    # (a) parsing arbitrary equation text
    strings = [rand_equation(rng) for _ in range(2500 if quick else 100000)]
    items = []
    for s in strings:
        o = observe_parse(s)
        gc, go = emit_parse(s, o)
        items.append({"case": s, "obs": o, "gcase": gc, "gobs": go, "nontrivial": "raised" not in o and (o["subs"] or o["prods"])})
        run.count("parse:" + ("raised" if "raised" in o else "terms:%d" % min(4, len(o["subs"]) + len(o["prods"]))))
    core.decide(run, items, IMPORTS, "accept_C19_parse", oracle_parse, shard=500)
    # (b) printing and reading back
    reacts = [rand_reaction(rng) for _ in range(1500 if quick else 50000)]
    items = []
    for c in reacts:
        o = observe_print(c)
        if "label_not_permitted" in o:
            run.count("print:label_rejected_by_the_label_rule")
            continue
        gc, go = emit_print(c, o)
        items.append({"case": c, "obs": o, "gcase": gc, "gobs": go, "nontrivial": bool(c["subs"] or c["prods"])})
    core.decide(run, items, IMPORTS, "accept_C19_print", oracle_print, shard=400)
    # (c) constants
    ks = [make_k_case(rng) for _ in range(600 if quick else 20000)]
    items = []
    for c in ks:
        if not k_in_double_range(c):
            run.count("constants:discarded_outside_binary64_range")  # unit exponents up to 21 between extreme prefixes leave the double range
            continue
        o = observe_k(c)
        gc, go = emit_k(c, o)
        items.append({"case": c, "obs": o, "gcase": gc, "gobs": go, "nontrivial": True})
        run.count("orders:%s" % ("low" if c["n"] + c["m"] <= 4 else "high"))
        run.count("constants:" + ("rejected" if "raised" in o else "accepted"))
    core.decide(run, items, IMPORTS, "accept_C19_k", oracle_k, shard=300)
    # (d) network validity
    nets = [make_net_case(rng) for _ in range(300 if quick else 5000)]
    items = []
    for c in nets:
        o = observe_net(c)
        items.append({"case": c, "obs": o, "gcase": g_bool(valid_net(c)), "gobs": g_bool(o["accepted"]), "nontrivial": True})
        run.count("network:" + c["fault"])
    core.decide(run, items, IMPORTS, "accept_C19_net", lambda it: ((it["obs"]["accepted"] == valid_net(it["case"])),
                "a network is accepted iff species labels are distinct, reaction labels are distinct and every species used is declared"), shard=300)
    run.rule = ("(a) equation strings over labels with letters, digits, '-', '>', '_', '.', unicode letters; coefficients incl. 0, 10, signed, "
                "underscored, malformed; arbitrary spacing incl. tabs, no-break and em spaces, control separators; malformed stream (missing / "
                "doubled / extra '->' and '+'): Reaction(text) raised or the two dictionaries in insertion order, compared with the model's "
                "parse_eq; (b) reactions given as dictionaries (coefficients 0..9, up to 4 terms per side): to_string, the re-parsed reaction, "
                "ssto / psto / dsto over a label list incl. an absent label, order, rorder; (c) orders 0..8 x 0..8, constants as bare numbers or "
                "quantities in random unit systems, right and wrong dimensions: stored kf / kr (value, units), split(), K(); (d) networks with "
                "duplicate species, undeclared species, duplicate reaction labels. non-trivial = something to parse / print")


def replay(run, payload):
    core.use_repo()
    acc = payload["correspondence"]
    c = payload["case"]
    if acc == "accept_C19_parse":
        o = observe_parse(c)
        gc, go = emit_parse(c, o)
        core.decide(run, [{"case": c, "obs": o, "gcase": gc, "gobs": go}], IMPORTS, acc, oracle_parse)
    elif acc == "accept_C19_print":
        o = observe_print(c)
        gc, go = emit_print(c, o)
        core.decide(run, [{"case": c, "obs": o, "gcase": gc, "gobs": go}], IMPORTS, acc, oracle_print)
    elif acc == "accept_C19_k":
        o = observe_k(c)
        gc, go = emit_k(c, o)
        core.decide(run, [{"case": c, "obs": o, "gcase": gc, "gobs": go}], IMPORTS, acc, oracle_k)
    else:
        o = observe_net(c)
        core.decide(run, [{"case": c, "obs": o, "gcase": g_bool(valid_net(c)), "gobs": g_bool(o["accepted"])}], IMPORTS, acc,
                    lambda it: (it["obs"]["accepted"] == valid_net(it["case"]), "network validity"))
