"""Names of unit symbols <-> Gallina constructors, emission of usys/dim terms, and an
independent exact SI table (Fractions) used only by the Python-side property oracles."""
from fractions import Fraction as Fr

SPACE = ["km", "m", "dm", "cm", "mm", "dmm", "cmm", "µm", "nm", "pm", "fm"]
TIME = ["h", "min", "s", "ds", "cs", "ms", "µs", "ns", "ps", "fs"]
AMOUNT = ["kmol", "mol", "dmol", "cmol", "mmol", "µmol", "nmol", "pmol", "fmol", "molecule"]
VOLUME = ["kL", "L", "mL", "µL", "nL", "pL", "fL"]
MOLAR = ["kM", "M", "dM", "cM", "mM", "µM", "nM", "pM", "fM"]

C_SPACE = dict(zip(SPACE, ["Km", "Me", "Dm", "Cm", "Mm", "Dmm", "Cmm", "Um", "Nm", "Pm", "Fm"]))
C_TIME = dict(zip(TIME, ["Ho", "Mi", "Se", "Ds", "Cs", "Ms", "Us", "Ns", "Ps", "Fs"]))
C_AMOUNT = dict(zip(AMOUNT, ["Kmol", "Mol", "Dmol", "Cmol", "Mmol", "Umol", "Nmol", "Pmol", "Fmol", "Molecule"]))
C_VOLUME = dict(zip(VOLUME, ["KL", "L_", "ML", "UL", "NL", "PL", "FL"]))
C_MOLAR = dict(zip(MOLAR, ["KM_", "M_", "DM_", "CM_", "MM_", "UM_", "NM_", "PM_", "FM_"]))

_PREF = {"k": 3, "": 0, "d": -1, "c": -2, "m": -3, "dm": -4, "cm": -5, "µ": -6, "n": -9, "p": -12, "f": -15}
NA = Fr(602214076) * 10**15

# independent of the Coq model: written from the SI definitions
SI_SPACE = {u: Fr(10) ** _PREF[u[:-1]] for u in SPACE}
SI_TIME = {"h": Fr(3600), "min": Fr(60)}
SI_TIME.update({u: Fr(10) ** _PREF[u[:-1]] for u in TIME if u not in ("h", "min")})
SI_AMOUNT = {"molecule": Fr(1)}
SI_AMOUNT.update({u: Fr(10) ** _PREF[u[:-3]] * NA for u in AMOUNT if u != "molecule"})


def si_scale(sys3, dim3):
    s, t, q = sys3
    a, b, c = dim3
    return SI_SPACE[s] ** a * SI_TIME[t] ** b * SI_AMOUNT[q] ** c


def g_usys(sys3):
    s, t, q = sys3
    return "{| us := %s; ut := %s; uq := %s |}" % (C_SPACE[s], C_TIME[t], C_AMOUNT[q])


def g_dim(dim3):
    a, b, c = dim3
    return "{| dS := (%d); dT := (%d); dQ := (%d) |}" % (a, b, c)


def sys_of(unitssystem):
    return (unitssystem["space"], unitssystem["time"], unitssystem["quantity"])


def dim_of(unitsdim):
    return (int(unitsdim["space"]), int(unitsdim["time"]), int(unitsdim["quantity"]))


def units_str(sys3, dim3):
    """A unit string denoting sys^dim with every base printed (also zero exponents are skipped,
    as the grammar has no way to write them)."""
    parts = []
    for u, e in zip(sys3, dim3):
        if e == 1:
            parts.append(u)
        elif e != 0:
            parts.append("%s%d" % (u, e))
    return ".".join(parts)


def all_systems():
    return [(s, t, q) for s in SPACE for t in TIME for q in AMOUNT]
