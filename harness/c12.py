"""C12 - dictionary, JSON and file round trips preserve the model."""
import copy
import json
import math
import os
import random
import shutil

from . import core, si, sysgen, trajgen, engine_build, child, fingerprint, dictgen, translate_schemas, files
from .core import g_float, g_list, g_bool, g_codepoints

IMPORTS = "Units ReactionText ObjDict AcceptC04 Files AcceptC12"

# the key aliases each reader accepts (first = the key the writers use): read from /repo's current source by the translator
try:
    ALIASES = translate_schemas.aliases()
except translate_schemas.TranslateError:
    ALIASES = {}            # ./check reports the failed translation as a broken obligation
_U = {"units": "unitssystem"}
CHILDREN = {"species": dict(_U), "reaction": dict(_U), "node": dict(_U), "edge": dict(_U), "grid": dict(_U),
            "network": dict(_U, species="species*", reactions="reaction*"), "graph": dict(_U, nodes="node*", edges="edge*"),
            "system": dict(_U, network="network", space="space", state="unitarray"),
            "script": dict(_U, system="system", t_sample="unitarray")}


def alias_variants(kind, d, rng, limit=6):
    """dictionaries equal to d except that one key (somewhere) is replaced by one of its aliases"""
    sites = []

    def walk(kind, d, path):
        if kind == "space":
            kind = d.get("type", "grid")
        for syn in ALIASES.get(kind, []):
            present = [k for k in syn if k in d]          # whichever synonym the dictionary uses (the writers need not use the first)
            if len(present) == 1:
                for a in syn:
                    if a != present[0]:
                        sites.append((path, present[0], a))
        for key, ck in CHILDREN.get(kind, {}).items():
            if key in d and isinstance(d[key], (dict, list)):
                if ck.endswith("*"):
                    for i, x in enumerate(d[key]):
                        if isinstance(x, dict):
                            walk(ck[:-1], x, path + [key, i])
                elif isinstance(d[key], dict):
                    walk(ck, d[key], path + [key])
    walk(kind, d, [])
    rng.shuffle(sites)
    out = []
    for path, key, alias in sites[:limit]:
        v = copy.deepcopy(d)
        t = v
        for p in path:
            t = t[p]
        t[alias] = t.pop(key)
        out.append(("alias:%s->%s" % (key, alias), v))
    return out, len(sites)


def _is_zero_q(v):
    if isinstance(v, (int, float)):
        return v == 0
    if isinstance(v, str):
        try:
            return float(v.split()[0]) == 0
        except Exception:
            return False
    return False


def with_defaults_omitted(kind, d):
    """the same dictionary with every key removed whose value is the documented default (D, density, k+, k- = 0; chstt = false;
    label = null; reactions = []; w, h, d = 1; cell_env = 0; a nested "units" equal to its parent's = "inherit")"""
    v = copy.deepcopy(d)
    removed = []

    def walk(kind, d, parent_units):
        if kind == "space":
            kind = d.get("type", "grid")
        mine = d.get("units", parent_units)
        if parent_units is not None and d.get("units") == parent_units:
            del d["units"]
            removed.append(kind + ".units")
        if kind == "species":
            for k in ("D", "density"):
                if k in d and _is_zero_q(d[k]):
                    del d[k]
                    removed.append("species." + k)
            if d.get("chstt") is False:
                del d["chstt"]
                removed.append("species.chstt")
        elif kind == "reaction":
            for k in ("k+", "k-"):
                if k in d and _is_zero_q(d[k]):
                    del d[k]
                    removed.append("reaction." + k)
            if "label" in d and d["label"] is None:
                del d["label"]
                removed.append("reaction.label")
        elif kind == "network":
            if d.get("reactions") == []:
                del d["reactions"]
                removed.append("network.reactions")
        elif kind == "grid":
            for k in ("w", "h", "d"):
                if d.get(k) == 1:
                    del d[k]
                    removed.append("grid." + k)
        for key, ck in CHILDREN.get(kind, {}).items():
            if key in d and isinstance(d[key], (dict, list)):
                if ck.endswith("*"):
                    for x in d[key]:
                        if isinstance(x, dict):
                            walk(ck[:-1], x, mine)
                elif isinstance(d[key], dict):
                    walk(ck, d[key], mine)
    walk(kind, v, None)
    return v, removed


def make_case(rng):
    kind = rng.choice(["network", "space", "system", "script", "trajectory"])
    c = trajgen.make_sim_case(rng, kind="euler", max_cells=4, max_steps=5)
    c["kind"] = kind
    for k, r in enumerate(c["desc"]["reactions"]):
        r["label"] = rng.choice([None, "r%d" % k, "rx %d" % k if False else "R%d" % k])
    c["state"] = [rng.choice([0.0, 1.0, 2.5, 7.0]) for _ in c["state"]]
    c["state_units"] = sysgen.rand_sys(rng)
    c["init"] = rng.choice(["auto", "none", "Poisson", "redist"])
    c["policy"] = rng.choice(["on_t_sample", "on_iteration", "on_interval", "no_sampling"])
    c["explicit_tmax"] = rng.random() < 0.5
    # (seeds of every size: a file must hand back the very integer, also beyond 2^53 where a detour through a float would round it)
    c["seed"] = rng.choice([rng.randrange(2 ** 31), rng.randrange(2 ** 31), 0, 1, 2 ** 32 - 1, 2 ** 53 + 1, 2 ** 63 - 25, rng.randrange(2 ** 62, 2 ** 63)])
    c["separate_data"] = rng.random() < 0.5
    c["alias_seed"] = rng.randrange(2 ** 30)
    # a coarse-grained run: the trajectory's own system (the grid) then differs from the system of its script (the graph)
    sp = c["desc"]["space"]
    c["cgmap"] = None
    if c["kind"] == "trajectory" and sp["type"] == "grid" and rng.random() < 0.6:
        sp["per"] = [False, False, False]          # coarse-graining is defined for reflecting grids
        n = sp["w"] * sp["h"] * sp["d"]
        im = list(range(n))
        for a in range(n):                    # merge the first pair of cells sharing an environment, if any
            bs = [b for b in range(a + 1, n) if sp["env"][b] == sp["env"][a]]
            if bs:
                b = bs[0]
                im = [v if v != b else a for v in im]
                im = [sorted(set(im)).index(v) for v in im]
                break
        c["cgmap"] = im
    return c


def build(strengths, c):
    kind = c["kind"]
    if kind == "network":
        return sysgen.build_network(strengths, c["desc"])
    if kind == "space":
        return sysgen.build_space(strengths, c["desc"]["space"])
    U = strengths.units
    state = U.UnitArray(list(c["state"]), U.Units(sysgen.py_sys(U, c["state_units"]), U.UnitsDimensions(quantity=1)))
    system = sysgen.build_system(strengths, c["desc"], state=state, chemostats=[int(b) for b in c["chs"]])
    if kind == "system":
        return system
    kw = {"t_max": c["t_max"]} if c["explicit_tmax"] else {}
    script = strengths.RDScript(system=system, t_sample=list(c["t_sample"]), time_step=c["dt"], sampling_policy=c["policy"],
                                sampling_interval=c["interval"], rng_seed=c["seed"], init_state_processing=c["init"],
                                units_system=sysgen.py_sys(U, c["units"]), **kw)
    if kind == "script":
        return script
    from strengths.simulate import simulate_script
    script.init_state_processing = "none"
    script.sampling_policy = "on_t_sample"
    return simulate_script(script, engine=engine_build.engine("euler"), cgmap=c.get("cgmap"))


def observe(c):
    import strengths
    import strengths.rdnetwork as N
    import strengths.rdspace as S
    import strengths.rdsystem as Y
    import strengths.rdscript as C
    import strengths.rdoutput as O
    kind = c["kind"]
    rng = random.Random(c["alias_seed"])
    obj = build(strengths, c)
    try:
        out = {"ref": fingerprint.of(kind, obj), "variants": []}
    except (ValueError, OverflowError):
        return {"nonfinite": True}          # a diverged Euler trajectory: nothing to compare
    to_dict = {"network": N.rdnetwork_to_dict, "space": S.rdspace_to_dict, "system": Y.rdsystem_to_dict, "script": C.rdscript_to_dict}.get(kind)
    from_dict = {"network": N.rdnetwork_from_dict, "space": S.rdspace_from_dict, "system": Y.rdsystem_from_dict, "script": C.rdscript_from_dict}.get(kind)
    save = {"network": N.save_rdnetwork, "space": S.save_rdspace, "system": Y.save_rdsystem, "script": getattr(C, "save_rdscript", None),
            "trajectory": O.save_rdtrajectory}[kind]
    load = {"network": N.load_rdnetwork, "space": S.load_rdspace, "system": Y.load_rdsystem, "script": C.load_rdscript, "trajectory": O.load_rdtrajectory}[kind]

    def attempt(label, f):
        try:
            out["variants"].append([label, fingerprint.of(kind, f())])
        except Exception as e:
            out["variants"].append([label, {"error": "%s: %s" % (type(e).__name__, str(e)[:100])}])
    scratch = os.path.join(str(core.BUILD), "c12_%d" % os.getpid())
    shutil.rmtree(scratch, ignore_errors=True)
    os.makedirs(os.path.join(scratch, "sub"))
    try:
        if to_dict is not None:
            d1 = None
            try:
                d1 = to_dict(obj)
            except Exception as e:
                out["variants"].append(["to_dict", {"error": "%s: %s" % (type(e).__name__, str(e)[:100])}])
            if d1 is not None:
                attempt("dict", lambda: from_dict(copy.deepcopy(d1)))
                attempt("json_text", lambda: from_dict(json.loads(json.dumps(d1))))
                try:
                    d2 = to_dict(from_dict(copy.deepcopy(d1)))
                    out["stable"] = json.dumps(d1, sort_keys=True, default=str) == json.dumps(d2, sort_keys=True, default=str)
                except Exception as e:
                    out["stable"] = False
                dv0, removed = with_defaults_omitted(kind, d1)
                out["defaults_omitted"] = removed
                if removed:
                    attempt("defaults_omitted", lambda: from_dict(dv0))
                vs, nsites = alias_variants(kind, d1, rng)
                out["alias_sites"] = nsites
                for label, dv in vs:
                    attempt(label, lambda dv=dv: from_dict(dv))
                if kind == "system":
                    # multi-file layout: network and space in their own files (one in a sub-directory), referred to by relative paths,
                    # state as an external .npy array, chemostats as a text file; loaded from another working directory
                    import numpy as np
                    json.dump(d1["network"], open(os.path.join(scratch, "sub", "net.json"), "w", encoding="utf-8"))
                    json.dump(d1["space"], open(os.path.join(scratch, "sp.json"), "w", encoding="utf-8"))
                    np.save(os.path.join(scratch, "sub", "state.npy"), np.array(d1["state"]["value"], dtype=float))
                    with open(os.path.join(scratch, "chem.txt"), "w") as f:
                        f.write("\n".join(str(int(v)) for v in d1["chemostats"]))
                    dm = {"units": d1["units"], "network": "sub/net.json", "space": "sp.json",
                          "state": {"value": "sub/state.npy", "units": d1["state"]["units"]}, "chemostats": "chem.txt"}
                    json.dump(dm, open(os.path.join(scratch, "system.json"), "w", encoding="utf-8"))
                    attempt("multi_file_relative_paths", lambda: load(os.path.join(scratch, "system.json")))
                    dm2 = dict(dm, network=os.path.join(scratch, "sub", "net.json"))
                    json.dump(dm2, open(os.path.join(scratch, "system_abs.json"), "w", encoding="utf-8"))
                    attempt("multi_file_absolute_path", lambda: load(os.path.join(scratch, "system_abs.json")))
                if kind == "script":
                    # nested multi-file layout: the script refers to a system file in another directory, which refers to its own
                    # network / space / state / chemostats files relative to *itself* (a grid space keeps its environments in a text
                    # file next to the space file); each reference is resolved against the file that holds it
                    import numpy as np
                    ds = d1["system"]
                    os.makedirs(os.path.join(scratch, "model", "parts"))
                    json.dump(ds["network"], open(os.path.join(scratch, "model", "net.json"), "w", encoding="utf-8"))
                    dsp = copy.deepcopy(ds["space"])
                    if isinstance(dsp.get("cell_env"), list):
                        with open(os.path.join(scratch, "model", "parts", "env.txt"), "w") as f:
                            f.write(", ".join(str(int(v)) for v in dsp["cell_env"]))
                        dsp["cell_env"] = "env.txt"
                    json.dump(dsp, open(os.path.join(scratch, "model", "parts", "sp.json"), "w", encoding="utf-8"))
                    np.save(os.path.join(scratch, "model", "state.npy"), np.array(ds["state"]["value"], dtype=float))
                    with open(os.path.join(scratch, "model", "parts", "chem.txt"), "w") as f:
                        f.write(" ".join(str(int(v)) for v in ds["chemostats"]))
                    dm = {"units": ds["units"], "network": "net.json", "space": "parts/sp.json",
                          "state": {"value": "state.npy", "units": ds["state"]["units"]}, "chemostats": "parts/chem.txt"}
                    json.dump(dm, open(os.path.join(scratch, "model", "system.json"), "w", encoding="utf-8"))
                    dscr = dict(d1, system="model/system.json")
                    json.dump(dscr, open(os.path.join(scratch, "script_nested.json"), "w", encoding="utf-8"))
                    attempt("nested_files_relative_paths", lambda: load(os.path.join(scratch, "script_nested.json")))
                    attempt("nested_files_base_path", lambda: from_dict(copy.deepcopy(dscr), base_path=scratch))
        path = os.path.join(scratch, "obj.json")

        def via_file():
            if kind == "trajectory":
                save(obj, path, separate_data=c["separate_data"])
            elif kind == "script":
                if save is None:
                    raise RuntimeError("no save_rdscript")
                try:
                    save(obj, path)
                except TypeError:
                    save(obj)             # the signature documented today takes no path
            else:
                save(obj, path)
            return load(path)
        attempt("file", via_file)
    finally:
        shutil.rmtree(scratch, ignore_errors=True)
    return out


def g_fp(fp):
    if "error" in fp:
        return "None"
    return "(Some (%s, %s))" % (g_list([g_float(v) for v in fp["num"]]), g_list([g_codepoints(s) for s in fp["disc"]]))


def finite(fp):
    return "error" in fp or all(math.isfinite(v) for v in fp["num"])


def oracle(it):
    c, o = it["case"], it["obs"]
    name = "dictionary / JSON / file round trips give an object with the same physical content; serialising again gives the same dictionary"
    if "error" in o:
        return False, name + " [%s]" % o["error"]
    ref = o["ref"]
    for label, fp in o["variants"]:
        if "error" in fp:
            return False, name + " [%s of a %s: %s]" % (label, c["kind"], fp["error"])
        if fp["disc"] != ref["disc"]:
            diff = [(a, b) for a, b in zip(ref["disc"], fp["disc"]) if a != b][:2]
            return False, name + " [%s of a %s: %s]" % (label, c["kind"], diff or "different number of items")
        if len(fp["num"]) != len(ref["num"]) or any(abs(a - b) > 1e-9 * (abs(a) + abs(b)) for a, b in zip(ref["num"], fp["num"])):
            return False, name + " [%s of a %s: a quantity changed]" % (label, c["kind"])
    if o.get("stable") is False:
        return False, name + " [to_dict(from_dict(to_dict(x))) differs from to_dict(x)]"
    return True, name


def build_items(cases, run=None):
    engine_build.build(False)
    obs = child.map_children("c12", "observe", cases, timeout=60)
    items = []
    for c, o in zip(cases, obs):
        if "timeout" in o or "crash" in o or "nonfinite" in o:
            if run:
                run.count("discarded_timeout_crash_or_nonfinite")
            continue
        if "error" in o:
            o = {"error": o["error"], "ref": {"num": [], "disc": []}, "variants": [["build", {"error": o["error"]}]]}
        if not finite(o["ref"]) or not all(finite(fp) for _, fp in o["variants"]):
            if run:
                run.count("discarded_nonfinite")
            continue
        gc = "(%s, %s)" % (g_fp(o["ref"]), g_bool(o.get("stable", True)))
        go = g_list([g_fp(fp) for _, fp in o["variants"]])
        items.append({"case": c, "obs": o, "gcase": gc, "gobs": go, "nontrivial": len(o["variants"]) >= 2})
    return items



# ------------------------------------------------------------------------------ object level: the species writer and reader
DIM_D, DIM_DENS = (2, -1, 0), (-3, 0, 1)


def make_species_case(rng):
    """a species whose quantities are stated as text in random units; D and density single or per environment (with 'default')"""
    envs = ["e0", "e1", "cyt", "default"]

    def qty(dim):
        v = rng.choice([0.0, 1.0, 2.5, 0.1, 1e-3, 12345.678, 3e8, 7.25e-12, float(rng.randint(1, 999))])
        return {"v": v, "sys": list(sysgen.rand_sys(rng)), "dim": list(dim)}

    def envq(dim):
        if rng.random() < 0.5:
            return {"scalar": qty(dim)}
        ks = rng.sample(envs, rng.randint(1, 3))
        return {"dict": [[k, qty(dim)] for k in ks]}
    chs = {"scalar": rng.random() < 0.5} if rng.random() < 0.6 else {"dict": [[k, rng.random() < 0.5] for k in rng.sample(envs, rng.randint(1, 3))]}
    return {"label": rng.choice(["A", "B2", "ATP", "x_y", "Ca2"]), "D": envq(DIM_D), "dens": envq(DIM_DENS), "chstt": chs,
            "units": list(sysgen.rand_sys(rng)), "parent": list(sysgen.rand_sys(rng)), "alias_seed": rng.randrange(2 ** 30)}


def _qtext(q):
    return "%r %s" % (float(q["v"]), si.units_str(q["sys"], q["dim"]))


def observe_species(c):
    import strengths
    import strengths.rdnetwork as rn
    U = strengths.units

    def arg(ev):
        return _qtext(ev["scalar"]) if "scalar" in ev else {k: _qtext(q) for k, q in ev["dict"]}
    chs = c["chstt"]["scalar"] if "scalar" in c["chstt"] else {k: b for k, b in c["chstt"]["dict"]}
    try:
        s = strengths.Species(label=c["label"], D=arg(c["D"]), density=arg(c["dens"]), chstt=chs, units_system=sysgen.py_sys(U, c["units"]))
        written = rn.species_to_dict(s)
    except Exception as e:
        return {"error": "%s: %s" % (type(e).__name__, str(e)[:100])}
    parent = sysgen.py_sys(U, c["parent"])
    rng = random.Random(c["alias_seed"])
    variants = [["as_written", copy.deepcopy(written)]]
    for syn in ALIASES.get("species", []):
        present = [k for k in syn if k in written]
        if len(present) == 1 and len(syn) > 1 and rng.random() < 0.5:
            v = copy.deepcopy(written)
            v[rng.choice([a for a in syn if a != present[0]])] = v.pop(present[0])
            variants.append(["alias:" + present[0], v])
    for key in ("D", "density", "chstt", "units"):
        if rng.random() < 0.4:
            v = copy.deepcopy(written)
            del v[key]
            variants.append(["omitted:" + key, v])
    v = copy.deepcopy(written)
    v["units"] = rng.choice(["inherit", "default"])
    variants.append(["units:" + v["units"], v])
    out = []
    for label, v in variants:
        try:
            out.append([label, v, rn.species_to_dict(rn.species_from_dict(copy.deepcopy(v), parent))])
        except Exception as e:
            out.append([label, v, {"raised": type(e).__name__}])
    return {"written": written, "variants": out}


def g_jv(v):
    if v is None:
        return "JNull"
    if isinstance(v, (list, tuple)):
        return "(JArr %s)" % g_list([g_jv(x) for x in v])
    if isinstance(v, bool):
        return "(JBool %s)" % g_bool(v)
    if isinstance(v, int):
        return "(JInt %s)" % core.g_z(v)
    if isinstance(v, float):
        if not math.isfinite(v):
            raise ValueError("non-finite number")
        return "(JNum %s)" % g_codepoints(repr(v))
    if isinstance(v, str):
        return "(JStr %s)" % g_codepoints(v)
    if isinstance(v, dict):
        return "(JObj %s)" % g_list(["(%s, %s)" % (g_codepoints(k), g_jv(x)) for k, x in v.items()])
    raise ValueError("value outside the modelled JSON fragment: %r" % (v,))


def g_species_obj(c):
    def gq(q):
        return "(%s, (%s, %s))" % (g_codepoints(repr(float(q["v"]))), si.g_usys(q["sys"]), si.g_dim(q["dim"]))

    def gev(ev, leaf):
        if "scalar" in ev:
            return "(EScalar _ %s)" % leaf(ev["scalar"])
        return "(EDict _ %s)" % g_list(["(%s, %s)" % (g_codepoints(k), leaf(x)) for k, x in ev["dict"]])
    return "(Build_species_obj str %s %s %s %s %s)" % (
        g_codepoints(c["label"]), gev(c["D"], gq), gev(c["dens"], gq), gev(c["chstt"], g_bool), si.g_usys(c["units"]))


def g_reaction_obj(c):
    def gq(q):
        return "(%s, (%s, %s))" % (g_codepoints(repr(float(q["v"]))), si.g_usys(q["sys"]), si.g_dim(q["dim"]))

    def gev(ev):
        if "scalar" in ev:
            return "(EScalar _ %s)" % gq(ev["scalar"])
        return "(EDict _ %s)" % g_list(["(%s, %s)" % (g_codepoints(k), gq(x)) for k, x in ev["dict"]])

    def gside(sd):
        return g_list(["(%s, %s)" % (g_codepoints(l), core.g_z(z)) for l, z in sd])
    return "(Build_reaction_obj str %s (%s, %s) %s %s %s)" % (
        "None" if c["label"] is None else "(Some %s)" % g_codepoints(c["label"]), gside(c["sub"]), gside(c["prod"]), gev(c["kf"]), gev(c["kr"]),
        si.g_usys(c["units"]))


def emit_species(c, o):
    def gq(q):
        return "(%s, (%s, %s))" % (g_codepoints(repr(float(q["v"]))), si.g_usys(q["sys"]), si.g_dim(q["dim"]))

    def gev(ev, leaf):
        if "scalar" in ev:
            return "(EScalar _ %s)" % leaf(ev["scalar"])
        return "(EDict _ %s)" % g_list(["(%s, %s)" % (g_codepoints(k), leaf(x)) for k, x in ev["dict"]])
    gs = "(Build_species_obj str %s %s %s %s %s)" % (
        g_codepoints(c["label"]), gev(c["D"], gq), gev(c["dens"], gq), gev(c["chstt"], g_bool), si.g_usys(c["units"]))
    gc = "((%s : sp_obj), %s)" % (gs, si.g_usys(c["parent"]))
    if "error" in o:
        return gc, "(JBool false, [])"
    go = "(%s, %s)" % (g_jv(o["written"]), g_list(["(%s, %s)" % (g_jv(v), g_jv(w)) for _, v, w in o["variants"]]))
    return gc, go


def oracle_species(it):
    """model-independent: reading what was written and writing again gives the same dictionary; a renamed key or an omitted default changes
    nothing but that field"""
    o = it["obs"]
    name = "species_to_dict -> species_from_dict -> species_to_dict is the identity; aliases are interchangeable; omitted keys take the defaults"
    if "error" in o:
        return False, name + " [%s]" % o["error"]
    for label, v, w in o["variants"]:
        if w is None:
            if label == "as_written" or label.startswith("alias:"):
                return False, name + " [variant %s was rejected]" % label
            continue
        if "raised" in w:
            return False, name + " [variant %s was rejected: %s]" % (label, w["raised"])
        if label == "as_written" or label.startswith("alias:"):
            if w != o["written"]:
                return False, name + " [variant %s reads back differently]" % label
    return None, name


def species_items(cases):
    obs = child.map_children("c12", "observe_species", cases, timeout=60)
    items = []
    for c, o in zip(cases, obs):
        if "timeout" in o or "crash" in o:
            o = {"error": "timeout or crash"}
        try:
            gc, go = emit_species(c, o)
        except ValueError as e:
            o = {"error": str(e)}
            gc, go = emit_species(c, o)
        items.append({"case": c, "obs": o, "gcase": gc, "gobs": go, "nontrivial": "error" not in o})
    return items


def make_reaction_case(rng):
    """a reaction with a random equation (coefficients incl. 0, up to 3 terms per side, empty sides), constants of the right dimension stated
    as text in random units, single or per environment, labelled or not"""
    labels = ["A", "B", "C2", "x_y", "ATP", "2PG"]

    def side():
        ls = rng.sample(labels, rng.randint(0, 3))
        return [[l, rng.choice([0, 1, 1, 2, 3])] for l in ls]
    sub, prod = side(), side()
    n, m = sum(z for _, z in sub), sum(z for _, z in prod)
    envs = ["e0", "e1", "cyt", "default"]

    def qty(order):
        v = rng.choice([0.0, 1.0, 2.5, 0.1, 1e-3, 12345.678, 7.25e-12, float(rng.randint(1, 999))])
        return {"v": v, "sys": list(sysgen.rand_sys(rng)), "dim": list(sysgen.kdim(order))}

    def envq(order):
        if rng.random() < 0.6:
            return {"scalar": qty(order)}
        return {"dict": [[k, qty(order)] for k in rng.sample(envs, rng.randint(1, 3))]}
    return {"label": rng.choice([None, None, "r1", "fwd_2", "k-1"]), "sub": sub, "prod": prod, "kf": envq(n), "kr": envq(m),
            "units": list(sysgen.rand_sys(rng)), "parent": list(sysgen.rand_sys(rng)), "alias_seed": rng.randrange(2 ** 30)}


def observe_reaction(c):
    import strengths
    import strengths.rdnetwork as rn
    U = strengths.units

    def arg(ev):
        return _qtext(ev["scalar"]) if "scalar" in ev else {k: _qtext(q) for k, q in ev["dict"]}
    try:
        r = strengths.Reaction([dict((l, z) for l, z in c["sub"]), dict((l, z) for l, z in c["prod"])], kf=arg(c["kf"]), kr=arg(c["kr"]),
                               label=c["label"], units_system=sysgen.py_sys(U, c["units"]))
        written = rn.reaction_to_dict(r)
    except Exception as e:
        return {"error": "%s: %s" % (type(e).__name__, str(e)[:100])}
    parent = sysgen.py_sys(U, c["parent"])
    rng = random.Random(c["alias_seed"])
    variants = [["as_written", copy.deepcopy(written)]]
    for syn in ALIASES.get("reaction", []):
        present = [k for k in syn if k in written]
        if len(present) == 1 and len(syn) > 1 and rng.random() < 0.5:
            v = copy.deepcopy(written)
            v[rng.choice([a for a in syn if a != present[0]])] = v.pop(present[0])
            variants.append(["alias:" + present[0], v])
    for key in ("k+", "k-", "label", "units"):
        if rng.random() < 0.4:
            v = copy.deepcopy(written)
            del v[key]
            variants.append(["omitted:" + key, v])
    v = copy.deepcopy(written)
    v["units"] = rng.choice(["inherit", "default"])
    variants.append(["units:" + v["units"], v])
    out = []
    for label, v in variants:
        try:
            out.append([label, v, rn.reaction_to_dict(rn.reaction_from_dict(copy.deepcopy(v), parent))])
        except Exception as e:
            out.append([label, v, {"raised": type(e).__name__}])
    return {"written": written, "variants": out}


def emit_reaction(c, o):
    def gq(q):
        return "(%s, (%s, %s))" % (g_codepoints(repr(float(q["v"]))), si.g_usys(q["sys"]), si.g_dim(q["dim"]))

    def gev(ev):
        if "scalar" in ev:
            return "(EScalar _ %s)" % gq(ev["scalar"])
        return "(EDict _ %s)" % g_list(["(%s, %s)" % (g_codepoints(k), gq(x)) for k, x in ev["dict"]])

    def gside(sd):
        return g_list(["(%s, %s)" % (g_codepoints(l), core.g_z(z)) for l, z in sd])
    gr = "(Build_reaction_obj str %s (%s, %s) %s %s %s)" % (
        "None" if c["label"] is None else "(Some %s)" % g_codepoints(c["label"]), gside(c["sub"]), gside(c["prod"]), gev(c["kf"]), gev(c["kr"]),
        si.g_usys(c["units"]))
    gc = "((%s : re_obj), %s)" % (gr, si.g_usys(c["parent"]))
    if "error" in o:
        return gc, "(JBool false, [])"
    go = "(%s, %s)" % (g_jv(o["written"]), g_list(["(%s, %s)" % (g_jv(v), g_jv(w)) for _, v, w in o["variants"]]))
    return gc, go


def reaction_items(cases):
    obs = child.map_children("c12", "observe_reaction", cases, timeout=60)
    items = []
    for c, o in zip(cases, obs):
        if "timeout" in o or "crash" in o:
            o = {"error": "timeout or crash"}
        try:
            gc, go = emit_reaction(c, o)
        except ValueError as e:
            o = {"error": str(e)}
            gc, go = emit_reaction(c, o)
        items.append({"case": c, "obs": o, "gcase": gc, "gobs": go, "nontrivial": "error" not in o})
    return items


def make_network_case(rng):
    """species and reactions as in the two classes above (reactions over the declared labels), environment names, units at every level"""
    labels = rng.sample(["A", "B", "C2", "x_y", "ATP", "2PG"], rng.randint(1, 4))
    species = []
    for l in labels:
        sc = make_species_case(rng)
        sc["label"] = l
        species.append(sc)
    reactions, used = [], set()
    for _ in range(rng.randint(0, 3)):
        rc = make_reaction_case(rng)
        def side():
            ls = rng.sample(labels, rng.randint(0, min(3, len(labels))))
            return [[l, rng.choice([0, 1, 1, 2, 3])] for l in ls]
        rc["sub"], rc["prod"] = side(), side()
        n, m = sum(z for _, z in rc["sub"]), sum(z for _, z in rc["prod"])
        for key, order in (("kf", n), ("kr", m)):
            ev = rc[key]
            for q in ([ev["scalar"]] if "scalar" in ev else [x for _, x in ev["dict"]]):
                q["dim"] = list(sysgen.kdim(order))
        if rc["label"] in used:
            rc["label"] = None
        if rc["label"] is not None:
            used.add(rc["label"])
        reactions.append(rc)
    envs = rng.sample(["e0", "e1", "cyt", "nucleus", ""], rng.randint(1, 3))
    return {"species": species, "reactions": reactions, "envs": envs, "units": list(sysgen.rand_sys(rng)), "parent": list(sysgen.rand_sys(rng)),
            "alias_seed": rng.randrange(2 ** 30)}


def observe_network(c):
    import strengths
    import strengths.rdnetwork as rn
    U = strengths.units

    def arg(ev):
        return _qtext(ev["scalar"]) if "scalar" in ev else {k: _qtext(q) for k, q in ev["dict"]}
    try:
        sps = []
        for sc in c["species"]:
            chs = sc["chstt"]["scalar"] if "scalar" in sc["chstt"] else {k: b for k, b in sc["chstt"]["dict"]}
            sps.append(strengths.Species(label=sc["label"], D=arg(sc["D"]), density=arg(sc["dens"]), chstt=chs, units_system=sysgen.py_sys(U, sc["units"])))
        rs = [strengths.Reaction([dict((l, z) for l, z in rc["sub"]), dict((l, z) for l, z in rc["prod"])], kf=arg(rc["kf"]), kr=arg(rc["kr"]),
                                 label=rc["label"], units_system=sysgen.py_sys(U, rc["units"])) for rc in c["reactions"]]
        net = strengths.RDNetwork(species=sps, reactions=rs, environments=list(c["envs"]), units_system=sysgen.py_sys(U, c["units"]))
        written = rn.rdnetwork_to_dict(net)
    except Exception as e:
        return {"error": "%s: %s" % (type(e).__name__, str(e)[:100])}
    written = json.loads(json.dumps(written))          # tuples become lists, as in a file
    parent = sysgen.py_sys(U, c["parent"])
    rng = random.Random(c["alias_seed"])
    variants = [["as_written", copy.deepcopy(written)]]
    for syn in ALIASES.get("network", []):
        present = [k for k in syn if k in written]
        if len(present) == 1 and len(syn) > 1 and rng.random() < 0.6:
            v = copy.deepcopy(written)
            v[rng.choice([a for a in syn if a != present[0]])] = v.pop(present[0])
            variants.append(["alias:" + present[0], v])
    for key in ("reactions", "units"):
        if rng.random() < 0.4 and (key != "reactions" or not written["reactions"]):
            v = copy.deepcopy(written)
            del v[key]
            variants.append(["omitted:" + key, v])
    if written["species"] and rng.random() < 0.5:      # a nested alias and a nested omission
        v = copy.deepcopy(written)
        sp0 = v["species"][0]
        sp0["dens"] = sp0.pop("density")
        del sp0["units"]
        variants.append(["nested", v])
    out = []
    for label, v in variants:
        try:
            out.append([label, v, json.loads(json.dumps(rn.rdnetwork_to_dict(rn.rdnetwork_from_dict(copy.deepcopy(v), parent))))])
        except Exception as e:
            out.append([label, v, {"raised": type(e).__name__}])
    return {"written": written, "variants": out}


def emit_network(c, o):
    gn = "(Build_network_obj str %s %s %s %s)" % (g_list([g_species_obj(sc) for sc in c["species"]]), g_list([g_reaction_obj(rc) for rc in c["reactions"]]),
                                                   g_list([g_codepoints(e) for e in c["envs"]]), si.g_usys(c["units"]))
    gc = "((%s : ne_obj), %s)" % (gn, si.g_usys(c["parent"]))
    if "error" in o:
        return gc, "(JBool false, [])"
    go = "(%s, %s)" % (g_jv(o["written"]), g_list(["(%s, %s)" % (g_jv(v), g_jv(w)) for _, v, w in o["variants"]]))
    return gc, go


def network_items(cases):
    obs = child.map_children("c12", "observe_network", cases, timeout=60)
    items = []
    for c, o in zip(cases, obs):
        if "timeout" in o or "crash" in o:
            o = {"error": "timeout or crash"}
        try:
            gc, go = emit_network(c, o)
        except ValueError as e:
            o = {"error": str(e)}
            gc, go = emit_network(c, o)
        items.append({"case": c, "obs": o, "gcase": gc, "gobs": go, "nontrivial": "error" not in o})
    return items


def make_grid_case(rng):
    w, h, d = rng.randint(1, 3), rng.randint(1, 3), rng.randint(1, 2)
    vol = {"v": rng.choice([1.0, 2.5, 0.125, 8.0, 3e-3, 1234.5]), "sys": list(sysgen.rand_sys(rng)), "dim": [3, 0, 0]}
    return {"w": w, "h": h, "d": d, "env": [rng.randrange(3) for _ in range(w * h * d)], "vol": vol, "per": [rng.random() < 0.4 for _ in range(3)],
            "units": list(sysgen.rand_sys(rng)), "parent": list(sysgen.rand_sys(rng)), "alias_seed": rng.randrange(2 ** 30)}


def _variants_out(variants, rebuild):
    out = []
    for label, v in variants:
        try:
            out.append([label, v, json.loads(json.dumps(rebuild(copy.deepcopy(v))))])
        except Exception:
            out.append([label, v, None])          # rejected: the model must reject it too
    return out


def observe_grid(c):
    import strengths
    import strengths.rdgridspace as gs
    U = strengths.units
    try:
        g = strengths.RDGridSpace(w=c["w"], h=c["h"], d=c["d"], cell_env=list(c["env"]), cell_vol=_qtext(c["vol"]),
                                  boundary_conditions={a: sysgen.BC[p] for a, p in zip("xyz", c["per"])}, units_system=sysgen.py_sys(U, c["units"]))
        written = json.loads(json.dumps(gs.rdgridspace_to_dict(g)))
    except Exception as e:
        return {"error": "%s: %s" % (type(e).__name__, str(e)[:100])}
    parent = sysgen.py_sys(U, c["parent"])
    rng = random.Random(c["alias_seed"])
    variants = [["as_written", copy.deepcopy(written)]]
    for syn in ALIASES.get("grid", []):
        present = [k for k in syn if k in written]
        if len(present) == 1 and len(syn) > 1 and rng.random() < 0.5:
            v = copy.deepcopy(written)
            v[rng.choice([a for a in syn if a != present[0]])] = v.pop(present[0])
            variants.append(["alias:" + present[0], v])
    for key in ("w", "h", "d", "cell_env", "cell_volume", "boundary_conditions", "units", "type"):
        if rng.random() < 0.3:
            v = copy.deepcopy(written)
            del v[key]
            variants.append(["omitted:" + key, v])
    v = copy.deepcopy(written)
    r = rng.random()
    if r < 0.25:
        v["cell_env"] = 2                                     # one environment for every cell
        variants.append(["scalar_env", v])
    elif r < 0.5:
        v["cell_env"] = v["cell_env"] + [0]                   # one entry too many: rejected
        variants.append(["long_env", v])
    elif r < 0.75:
        v["boundary_conditions"] = {"z": "periodical", "x": "reflecting"}
        variants.append(["partial_bc", v])
    else:
        v["w"] = 0
        variants.append(["zero_width", v])
    return {"written": written, "variants": _variants_out(variants, lambda d: gs.rdgridspace_to_dict(gs.rdgridspace_from_dict(d, parent)))}


def emit_grid(c, o):
    q = c["vol"]
    gg = "(Build_grid_obj str %s %s %s %s (%s, (%s, %s)) (%s, %s, %s) %s)" % (
        core.g_z(c["w"]), core.g_z(c["h"]), core.g_z(c["d"]), g_list([core.g_z(e) for e in c["env"]]),
        g_codepoints(repr(float(q["v"]))), si.g_usys(q["sys"]), si.g_dim(q["dim"]),
        g_bool(c["per"][0]), g_bool(c["per"][1]), g_bool(c["per"][2]), si.g_usys(c["units"]))
    gc = "((%s : gr_obj), %s)" % (gg, si.g_usys(c["parent"]))
    if "error" in o:
        return gc, "(JBool false, [])"
    go = "(%s, %s)" % (g_jv(o["written"]), g_list(["(%s, %s)" % (g_jv(v), g_jv(w)) for _, v, w in o["variants"]]))
    return gc, go


def grid_items(cases):
    obs = child.map_children("c12", "observe_grid", cases, timeout=60)
    items = []
    for c, o in zip(cases, obs):
        if "timeout" in o or "crash" in o:
            o = {"error": "timeout or crash"}
        try:
            gc, go = emit_grid(c, o)
        except ValueError as e:
            o = {"error": str(e)}
            gc, go = emit_grid(c, o)
        items.append({"case": c, "obs": o, "gcase": gc, "gobs": go, "nontrivial": "error" not in o})
    return items


def make_graph_case(rng):
    gu = list(sysgen.rand_sys(rng))

    def us():
        return gu if rng.random() < 0.5 else list(sysgen.rand_sys(rng))

    def q(dim):
        return {"v": rng.choice([1.0, 2.5, 0.125, 8.0, 3e-3, 1234.5]), "sys": list(sysgen.rand_sys(rng)), "dim": list(dim)}
    n = rng.randint(1, 4)
    nodes = [{"vol": q((3, 0, 0)), "env": rng.randrange(3), "units": us()} for _ in range(n)]
    edges = [{"i": rng.randrange(n), "j": rng.randrange(n), "sf": q((2, 0, 0)), "ds": q((1, 0, 0)), "units": us()} for _ in range(rng.randint(0, 4))]
    return {"nodes": nodes, "edges": edges, "units": gu, "parent": list(sysgen.rand_sys(rng)), "alias_seed": rng.randrange(2 ** 30)}


def observe_graph(c):
    import strengths
    import strengths.rdgraphspace as gs
    U = strengths.units
    try:
        nodes = [gs.RDGraphSpaceNode(volume=_qtext(n["vol"]), environment=n["env"], units_system=sysgen.py_sys(U, n["units"])) for n in c["nodes"]]
        edges = [gs.RDGraphSpaceEdge(i=e["i"], j=e["j"], surface=_qtext(e["sf"]), distance=_qtext(e["ds"]), units_system=sysgen.py_sys(U, e["units"]))
                 for e in c["edges"]]
        g = strengths.RDGraphSpace(nodes=nodes, edges=edges, units_system=sysgen.py_sys(U, c["units"]))
        written = json.loads(json.dumps(gs.rdgraphspace_to_dict(g)))
    except Exception as e:
        return {"error": "%s: %s" % (type(e).__name__, str(e)[:100])}
    parent = sysgen.py_sys(U, c["parent"])
    rng = random.Random(c["alias_seed"])
    variants = [["as_written", copy.deepcopy(written)]]
    for syn in ALIASES.get("graph", []):
        present = [k for k in syn if k in written]
        if len(present) == 1 and len(syn) > 1 and rng.random() < 0.6:
            v = copy.deepcopy(written)
            v[rng.choice([a for a in syn if a != present[0]])] = v.pop(present[0])
            variants.append(["alias:" + present[0], v])
    if written["nodes"]:
        v = copy.deepcopy(written)
        nd = rng.choice(v["nodes"])
        r = rng.random()
        if r < 0.35:
            nd["vol"] = nd.pop("volume")
        elif r < 0.7:
            nd["env"] = nd.pop("environment")
        else:
            nd.pop("volume")                              # default volume, in the node's (own or inherited) units
        variants.append(["nested_node", v])
    if written["edges"]:
        v = copy.deepcopy(written)
        ed = rng.choice(v["edges"])
        r = rng.random()
        if r < 0.4:
            ed.pop(rng.choice(["surface", "distance"]))
        elif r < 0.7:
            ed["nodes"] = ed["nodes"] + [7]               # only the first two entries are read
        else:
            ed["nodes"] = ed["nodes"][:1]                 # rejected
        variants.append(["nested_edge", v])
    for key in ("units", "type", "edges"):
        if rng.random() < 0.3:
            v = copy.deepcopy(written)
            del v[key]
            variants.append(["omitted:" + key, v])
    return {"written": written, "variants": _variants_out(variants, lambda d: gs.rdgraphspace_to_dict(gs.rdgraphspace_from_dict(d, parent)))}


def emit_graph(c, o):
    def gq(q):
        return "(%s, (%s, %s))" % (g_codepoints(repr(float(q["v"]))), si.g_usys(q["sys"]), si.g_dim(q["dim"]))
    gn = g_list(["(Build_node_obj str %s %s %s)" % (gq(n["vol"]), core.g_z(n["env"]), si.g_usys(n["units"])) for n in c["nodes"]])
    ge = g_list(["(Build_edge_obj str %s %s %s %s %s)" % (core.g_z(e["i"]), core.g_z(e["j"]), gq(e["sf"]), gq(e["ds"]), si.g_usys(e["units"]))
                 for e in c["edges"]])
    gc = "((Build_graph_obj str %s %s %s : gp_obj), %s)" % (gn, ge, si.g_usys(c["units"]), si.g_usys(c["parent"]))
    if "error" in o:
        return gc, "(JBool false, [])"
    go = "(%s, %s)" % (g_jv(o["written"]), g_list(["(%s, %s)" % (g_jv(v), g_jv(w)) for _, v, w in o["variants"]]))
    return gc, go


def graph_items(cases):
    obs = child.map_children("c12", "observe_graph", cases, timeout=60)
    items = []
    for c, o in zip(cases, obs):
        if "timeout" in o or "crash" in o:
            o = {"error": "timeout or crash"}
        try:
            gc, go = emit_graph(c, o)
        except ValueError as e:
            o = {"error": str(e)}
            gc, go = emit_graph(c, o)
        items.append({"case": c, "obs": o, "gcase": gc, "gobs": go, "nontrivial": "error" not in o})
    return items


def make_system_case(rng):
    net = make_network_case(rng)
    nenv = len(net["envs"])
    if rng.random() < 0.5:
        sp = make_grid_case(rng)
        sp["env"] = [rng.randrange(nenv) for _ in sp["env"]]
        ncell = sp["w"] * sp["h"] * sp["d"]
        kind = "grid"
    else:
        sp = make_graph_case(rng)
        for nd in sp["nodes"]:
            nd["env"] = rng.randrange(nenv)
        ncell = len(sp["nodes"])
        kind = "graph"
    n = ncell * len(net["species"])
    return {"net": net, "space_kind": kind, "space": sp, "state": [rng.choice([0.0, 1.0, 2.5, 13.0, 1e-3, 600.25]) for _ in range(n)],
            "state_units": list(sysgen.rand_sys(rng)), "chs": [rng.randrange(2) for _ in range(n)], "units": list(sysgen.rand_sys(rng)),
            "parent": list(sysgen.rand_sys(rng)), "alias_seed": rng.randrange(2 ** 30)}


def _py_network(strengths, U, c):
    def arg(ev):
        return _qtext(ev["scalar"]) if "scalar" in ev else {k: _qtext(q) for k, q in ev["dict"]}
    sps = []
    for sc in c["species"]:
        chs = sc["chstt"]["scalar"] if "scalar" in sc["chstt"] else {k: b for k, b in sc["chstt"]["dict"]}
        sps.append(strengths.Species(label=sc["label"], D=arg(sc["D"]), density=arg(sc["dens"]), chstt=chs, units_system=sysgen.py_sys(U, sc["units"])))
    rs = [strengths.Reaction([dict((l, z) for l, z in rc["sub"]), dict((l, z) for l, z in rc["prod"])], kf=arg(rc["kf"]), kr=arg(rc["kr"]),
                             label=rc["label"], units_system=sysgen.py_sys(U, rc["units"])) for rc in c["reactions"]]
    return strengths.RDNetwork(species=sps, reactions=rs, environments=list(c["envs"]), units_system=sysgen.py_sys(U, c["units"]))


def _py_space(strengths, U, kind, c):
    import strengths.rdgraphspace as gs
    if kind == "grid":
        return strengths.RDGridSpace(w=c["w"], h=c["h"], d=c["d"], cell_env=list(c["env"]), cell_vol=_qtext(c["vol"]),
                                     boundary_conditions={a: sysgen.BC[p] for a, p in zip("xyz", c["per"])}, units_system=sysgen.py_sys(U, c["units"]))
    nodes = [gs.RDGraphSpaceNode(volume=_qtext(n["vol"]), environment=n["env"], units_system=sysgen.py_sys(U, n["units"])) for n in c["nodes"]]
    edges = [gs.RDGraphSpaceEdge(i=e["i"], j=e["j"], surface=_qtext(e["sf"]), distance=_qtext(e["ds"]), units_system=sysgen.py_sys(U, e["units"]))
             for e in c["edges"]]
    return strengths.RDGraphSpace(nodes=nodes, edges=edges, units_system=sysgen.py_sys(U, c["units"]))


def observe_system(c):
    import strengths
    import strengths.rdsystem as rs
    U = strengths.units
    try:
        state = U.UnitArray(list(c["state"]), U.Units(sysgen.py_sys(U, c["state_units"]), U.UnitsDimensions(quantity=1)))
        sy = strengths.RDSystem(network=_py_network(strengths, U, c["net"]), space=_py_space(strengths, U, c["space_kind"], c["space"]),
                                state=state, chemostats=list(c["chs"]), units_system=sysgen.py_sys(U, c["units"]))
        written = json.loads(json.dumps(rs.rdsystem_to_dict(sy)))
    except Exception as e:
        return {"error": "%s: %s" % (type(e).__name__, str(e)[:100])}
    parent = sysgen.py_sys(U, c["parent"])
    rng = random.Random(c["alias_seed"])
    variants = [["as_written", copy.deepcopy(written)]]
    for syn in ALIASES.get("system", []):
        present = [k for k in syn if k in written]
        if len(present) == 1 and len(syn) > 1 and rng.random() < 0.6:
            v = copy.deepcopy(written)
            v[rng.choice([a for a in syn if a != present[0]])] = v.pop(present[0])
            variants.append(["alias:" + present[0], v])
    if rng.random() < 0.5:
        v = copy.deepcopy(written)
        del v["units"]
        variants.append(["omitted:units", v])
    v = copy.deepcopy(written)
    r = rng.random()
    if r < 0.3:
        v["chemostats"] = [bool(b) for b in v["chemostats"]]
        variants.append(["bool_flags", v])
    elif r < 0.6:
        sp = v["space"]                                         # an environment beyond the network's list: rejected
        if sp["type"] == "grid":
            sp["cell_env"][0] = len(v["network"]["environments"])
        elif sp["nodes"]:
            sp["nodes"][0]["environment"] = len(v["network"]["environments"])
        variants.append(["env_beyond_list", v])
    elif r < 0.8 and v["space"]["type"] == "grid":
        del v["space"]["type"]                                  # a space without a type is a grid
        variants.append(["untyped_grid", v])
    else:
        v["state"]["units"] = "s"                               # not an amount: rejected
        variants.append(["state_not_an_amount", v])
    return {"written": written, "variants": _variants_out(variants, lambda d: rs.rdsystem_to_dict(rs.rdsystem_from_dict(d, parent)))}


def g_network_obj(c):
    return "(Build_network_obj str %s %s %s %s)" % (g_list([g_species_obj(sc) for sc in c["species"]]), g_list([g_reaction_obj(rc) for rc in c["reactions"]]),
                                                     g_list([g_codepoints(e) for e in c["envs"]]), si.g_usys(c["units"]))


def g_space_obj(kind, c):
    def gq(q):
        return "(%s, (%s, %s))" % (g_codepoints(repr(float(q["v"]))), si.g_usys(q["sys"]), si.g_dim(q["dim"]))
    if kind == "grid":
        return "(SpGrid str (Build_grid_obj str %s %s %s %s %s (%s, %s, %s) %s))" % (
            core.g_z(c["w"]), core.g_z(c["h"]), core.g_z(c["d"]), g_list([core.g_z(e) for e in c["env"]]), gq(c["vol"]),
            g_bool(c["per"][0]), g_bool(c["per"][1]), g_bool(c["per"][2]), si.g_usys(c["units"]))
    gn = g_list(["(Build_node_obj str %s %s %s)" % (gq(n["vol"]), core.g_z(n["env"]), si.g_usys(n["units"])) for n in c["nodes"]])
    ge = g_list(["(Build_edge_obj str %s %s %s %s %s)" % (core.g_z(e["i"]), core.g_z(e["j"]), gq(e["sf"]), gq(e["ds"]), si.g_usys(e["units"]))
                 for e in c["edges"]])
    return "(SpGraph str (Build_graph_obj str %s %s %s))" % (gn, ge, si.g_usys(c["units"]))


def emit_system(c, o):
    gs_ = "(Build_system_obj str %s %s (%s, (%s, %s)) %s %s)" % (
        g_network_obj(c["net"]), g_space_obj(c["space_kind"], c["space"]), g_list([g_codepoints(repr(float(v))) for v in c["state"]]),
        si.g_usys(c["state_units"]), si.g_dim([0, 0, 1]), g_list([core.g_z(b) for b in c["chs"]]), si.g_usys(c["units"]))
    gc = "((%s : sy_obj), %s)" % (gs_, si.g_usys(c["parent"]))
    if "error" in o:
        return gc, "(JBool false, [])"
    go = "(%s, %s)" % (g_jv(o["written"]), g_list(["(%s, %s)" % (g_jv(v), g_jv(w)) for _, v, w in o["variants"]]))
    return gc, go


def system_items(cases):
    obs = child.map_children("c12", "observe_system", cases, timeout=60)
    items = []
    for c, o in zip(cases, obs):
        if "timeout" in o or "crash" in o:
            o = {"error": "timeout or crash"}
        try:
            gc, go = emit_system(c, o)
        except ValueError as e:
            o = {"error": str(e)}
            gc, go = emit_system(c, o)
        items.append({"case": c, "obs": o, "gcase": gc, "gobs": go, "nontrivial": "error" not in o})
    return items


def make_script_case(rng):
    sy = make_system_case(rng)
    tu = list(sysgen.rand_sys(rng))

    def tq():
        return {"v": rng.choice([0.5, 1.0, 0.125, 2.0, 1e-3, 30.0]), "sys": list(sysgen.rand_sys(rng)), "dim": [0, 1, 0]}
    ts = sorted(rng.choice([0.0, 0.5, 1.0, 2.0, 3.5, 10.0]) for _ in range(rng.randint(1, 5)))
    return {"system": sy, "ts": ts, "ts_units": tu, "dt": tq(), "tmax": tq() if rng.random() < 0.5 else None,
            "policy": rng.choice(["on_t_sample", "on_iteration", "on_interval", "no_sampling"]), "interval": tq(), "seed": rng.choice([rng.randrange(2 ** 32), rng.randrange(2 ** 32), 0, 2 ** 53 + 1, rng.randrange(2 ** 62, 2 ** 63)]),
            "init": rng.choice(["auto", "none", "Poisson", "redist"]), "units": list(sysgen.rand_sys(rng)), "alias_seed": rng.randrange(2 ** 30)}


def observe_script(c):
    import strengths
    import strengths.rdscript as rsc
    U = strengths.units
    sc = c["system"]
    try:
        state = U.UnitArray(list(sc["state"]), U.Units(sysgen.py_sys(U, sc["state_units"]), U.UnitsDimensions(quantity=1)))
        sy = strengths.RDSystem(network=_py_network(strengths, U, sc["net"]), space=_py_space(strengths, U, sc["space_kind"], sc["space"]),
                                state=state, chemostats=list(sc["chs"]), units_system=sysgen.py_sys(U, sc["units"]))
        kw = {} if c["tmax"] is None else {"t_max": _qtext(c["tmax"])}
        script = strengths.RDScript(system=sy, t_sample=U.UnitArray(list(c["ts"]), U.Units(sysgen.py_sys(U, c["ts_units"]), U.UnitsDimensions(time=1))),
                                    time_step=_qtext(c["dt"]), sampling_policy=c["policy"], sampling_interval=_qtext(c["interval"]),
                                    rng_seed=c["seed"], init_state_processing=c["init"], units_system=sysgen.py_sys(U, c["units"]), **kw)
        written = json.loads(json.dumps(rsc.rdscript_to_dict(script)))
    except Exception as e:
        return {"error": "%s: %s" % (type(e).__name__, str(e)[:100])}
    rng = random.Random(c["alias_seed"])
    variants = [["as_written", copy.deepcopy(written)]]
    for syn in ALIASES.get("script", []):
        present = [k for k in syn if k in written]
        if len(present) == 1 and len(syn) > 1 and rng.random() < 0.5:
            v = copy.deepcopy(written)
            v[rng.choice([a for a in syn if a != present[0]])] = v.pop(present[0])
            variants.append(["alias:" + present[0], v])
    for key in ("time_step", "t_max", "sampling_policy", "sampling_interval", "init_state_processing", "units"):
        if rng.random() < 0.3:
            v = copy.deepcopy(written)
            del v[key]
            variants.append(["omitted:" + key, v])
    v = copy.deepcopy(written)
    r = rng.random()
    if r < 0.35:
        v["sampling_policy"] = rng.choice(["on_sample", "never", "on_t_sample "])      # rejected
        variants.append(["bad_policy", v])
    elif r < 0.7:
        v["init_state_processing"] = rng.choice(["poisson", "floor", ""])            # rejected
        variants.append(["bad_mode", v])
    else:
        v["time_step"] = v["time_step"].split()[0] + " m"                             # not a time: rejected
        variants.append(["step_not_a_time", v])
    return {"written": written, "variants": _variants_out(variants, lambda d: rsc.rdscript_to_dict(rsc.rdscript_from_dict(d)))}


def emit_script(c, o):
    def gq(q):
        return "(%s, (%s, %s))" % (g_codepoints(repr(float(q["v"]))), si.g_usys(q["sys"]), si.g_dim(q["dim"]))
    sy = c["system"]
    gsy = "(Build_system_obj str %s %s (%s, (%s, %s)) %s %s)" % (
        g_network_obj(sy["net"]), g_space_obj(sy["space_kind"], sy["space"]), g_list([g_codepoints(repr(float(v))) for v in sy["state"]]),
        si.g_usys(sy["state_units"]), si.g_dim([0, 0, 1]), g_list([core.g_z(b) for b in sy["chs"]]), si.g_usys(sy["units"]))
    gs_ = "(Build_script_obj str %s (%s, (%s, %s)) %s %s %s %s %s %s %s : sc_obj)" % (
        gsy, g_list([g_codepoints(repr(float(t))) for t in c["ts"]]), si.g_usys(c["ts_units"]), si.g_dim([0, 1, 0]), gq(c["dt"]),
        "None" if c["tmax"] is None else "(Some %s)" % gq(c["tmax"]), g_codepoints(c["policy"]), gq(c["interval"]), core.g_z(c["seed"]),
        g_codepoints(c["init"]), si.g_usys(c["units"]))
    if "error" in o:
        return gs_, "(JBool false, [])"
    go = "(%s, %s)" % (g_jv(o["written"]), g_list(["(%s, %s)" % (g_jv(v), g_jv(w)) for _, v, w in o["variants"]]))
    return gs_, go


def script_items(cases):
    obs = child.map_children("c12", "observe_script", cases, timeout=60)
    items = []
    for c, o in zip(cases, obs):
        if "timeout" in o or "crash" in o:
            o = {"error": "timeout or crash"}
        try:
            gc, go = emit_script(c, o)
        except ValueError as e:
            o = {"error": str(e)}
            gc, go = emit_script(c, o)
        items.append({"case": c, "obs": o, "gcase": gc, "gobs": go, "nontrivial": "error" not in o})
    return items


def make_trajectory_case(rng):
    sc = make_script_case(rng)
    own = sc["system"] if rng.random() < 0.6 else make_system_case(rng)        # a coarse-grained run keeps another system than its script's
    nt = rng.randint(0, 3)
    size = len(own["state"])
    return {"script": sc, "system": own, "t": sorted(rng.choice([0.0, 0.5, 1.0, 2.5]) for _ in range(nt)), "t_units": list(sysgen.rand_sys(rng)),
            "data": [rng.choice([0.0, 1.0, 7.5, 1e-3, 250.0]) for _ in range(nt * size)], "data_units": list(sysgen.rand_sys(rng)),
            "descr": rng.choice(["strengths engine", "x", ""]), "option": rng.choice(["euler", "gillespie", "tauleap"]),
            "cgmap": (None if rng.random() < 0.6 else [rng.randrange(3) for _ in range(rng.randint(1, 4))]), "alias_seed": rng.randrange(2 ** 30)}


def _py_system(strengths, U, sc):
    state = U.UnitArray(list(sc["state"]), U.Units(sysgen.py_sys(U, sc["state_units"]), U.UnitsDimensions(quantity=1)))
    return strengths.RDSystem(network=_py_network(strengths, U, sc["net"]), space=_py_space(strengths, U, sc["space_kind"], sc["space"]),
                              state=state, chemostats=list(sc["chs"]), units_system=sysgen.py_sys(U, sc["units"]))


def py_trajectory(strengths, U, ro, c):
    s = c["script"]
    kw = {} if s["tmax"] is None else {"t_max": _qtext(s["tmax"])}
    script = strengths.RDScript(system=_py_system(strengths, U, s["system"]),
                                t_sample=U.UnitArray(list(s["ts"]), U.Units(sysgen.py_sys(U, s["ts_units"]), U.UnitsDimensions(time=1))),
                                time_step=_qtext(s["dt"]), sampling_policy=s["policy"], sampling_interval=_qtext(s["interval"]),
                                rng_seed=s["seed"], init_state_processing=s["init"], units_system=sysgen.py_sys(U, s["units"]), **kw)
    return ro.RDTrajectory(data=U.UnitArray(list(c["data"]), U.Units(sysgen.py_sys(U, c["data_units"]), U.UnitsDimensions(quantity=1))),
                           t_sample=U.UnitArray(list(c["t"]), U.Units(sysgen.py_sys(U, c["t_units"]), U.UnitsDimensions(time=1))),
                           system=_py_system(strengths, U, c["system"]), script=script, engine_description=c["descr"], engine_option=c["option"],
                           cgmap=c["cgmap"])


def observe_trajectory(c):
    import strengths
    import strengths.rdoutput as ro
    U = strengths.units
    scratch = os.path.join(str(core.BUILD), "c12t_%d" % os.getpid())
    shutil.rmtree(scratch, ignore_errors=True)
    os.makedirs(scratch)
    try:
        try:
            tr = py_trajectory(strengths, U, ro, c)
            p0 = os.path.join(scratch, "t0.json")
            ro.save_rdtrajectory(tr, p0, separate_data=False)
            written = json.load(open(p0, encoding="utf-8"))
        except Exception as e:
            return {"error": "%s: %s" % (type(e).__name__, str(e)[:100])}
        rng = random.Random(c["alias_seed"])
        variants = [["as_written", copy.deepcopy(written)]]
        v = copy.deepcopy(written)
        v["comment"] = "an entry the loader does not know"           # ignored: the loader indexes the keys it wants
        variants.append(["extra_key", v])
        if "cgmap" in written and rng.random() < 0.5:
            v = copy.deepcopy(written)
            del v["cgmap"]
            variants.append(["omitted:cgmap", v])
        v = copy.deepcopy(written)
        key = rng.choice(["engine_option", "t_sample", "system", "data"])
        del v[key]                                                    # a missing mandatory entry: rejected
        variants.append(["missing:" + key, v])
        v = copy.deepcopy(written)
        v["script"]["dt"] = v["script"].pop("time_step")              # aliases work inside the nested script
        variants.append(["nested_alias", v])

        def rebuild(d):
            p1, p2 = os.path.join(scratch, "in.json"), os.path.join(scratch, "out.json")
            json.dump(d, open(p1, "w", encoding="utf-8"))
            ro.save_rdtrajectory(ro.load_rdtrajectory(p1), p2, separate_data=False)
            return json.load(open(p2, encoding="utf-8"))
        return {"written": written, "variants": _variants_out(variants, rebuild)}
    finally:
        shutil.rmtree(scratch, ignore_errors=True)


def g_system_obj(sy):
    return "(Build_system_obj str %s %s (%s, (%s, %s)) %s %s)" % (
        g_network_obj(sy["net"]), g_space_obj(sy["space_kind"], sy["space"]), g_list([g_codepoints(repr(float(v))) for v in sy["state"]]),
        si.g_usys(sy["state_units"]), si.g_dim([0, 0, 1]), g_list([core.g_z(b) for b in sy["chs"]]), si.g_usys(sy["units"]))


def g_script_obj(c):
    def gq(q):
        return "(%s, (%s, %s))" % (g_codepoints(repr(float(q["v"]))), si.g_usys(q["sys"]), si.g_dim(q["dim"]))
    return "(Build_script_obj str %s (%s, (%s, %s)) %s %s %s %s %s %s %s)" % (
        g_system_obj(c["system"]), g_list([g_codepoints(repr(float(t))) for t in c["ts"]]), si.g_usys(c["ts_units"]), si.g_dim([0, 1, 0]), gq(c["dt"]),
        "None" if c["tmax"] is None else "(Some %s)" % gq(c["tmax"]), g_codepoints(c["policy"]), gq(c["interval"]), core.g_z(c["seed"]),
        g_codepoints(c["init"]), si.g_usys(c["units"]))


def emit_trajectory(c, o):
    gt = "(Build_trajectory_obj str %s %s (%s, (%s, %s)) (%s, (%s, %s)) %s %s %s : tj_obj)" % (
        g_script_obj(c["script"]), g_system_obj(c["system"]), g_list([g_codepoints(repr(float(v))) for v in c["data"]]), si.g_usys(c["data_units"]),
        si.g_dim([0, 0, 1]), g_list([g_codepoints(repr(float(v))) for v in c["t"]]), si.g_usys(c["t_units"]), si.g_dim([0, 1, 0]),
        g_codepoints(c["descr"]), g_codepoints(c["option"]), "None" if c["cgmap"] is None else "(Some %s)" % g_list([core.g_z(v) for v in c["cgmap"]]))
    if "error" in o:
        return gt, "(JBool false, [])"
    go = "(%s, %s)" % (g_jv(o["written"]), g_list(["(%s, %s)" % (g_jv(v), g_jv(w)) for _, v, w in o["variants"]]))
    return gt, go


def trajectory_items(cases):
    obs = child.map_children("c12", "observe_trajectory", cases, timeout=60)
    items = []
    for c, o in zip(cases, obs):
        if "timeout" in o or "crash" in o:
            o = {"error": "timeout or crash"}
        try:
            gc, go = emit_trajectory(c, o)
        except ValueError as e:
            o = {"error": str(e)}
            gc, go = emit_trajectory(c, o)
        items.append({"case": c, "obs": o, "gcase": gc, "gobs": go, "nontrivial": "error" not in o})
    return items


def check(run):
    rng = random.Random(run.seed)
    sysgen.POOLS["space"] = ["cm", "mm", "dmm", "cmm", "µm", "nm", "dm"]
    n = 150 if run.tier == "quick" else 3000
    cases = [make_case(rng) for _ in range(n)]
    items = build_items(cases, run)
    for it in items:
        c = it["case"]
        run.count("kind:" + c["kind"] + (":coarse_grained" if c.get("cgmap") else ""))
        run.count("space:" + c["desc"]["space"]["type"])
        for label, fp in it["obs"]["variants"]:
            run.count("variant:" + label.split(":")[0])
        run.count("alias_sites_total", it["obs"].get("alias_sites", 0))
        for k in it["obs"].get("defaults_omitted", []):
            run.count("omitted:" + k)
    run.rule = ("random networks / spaces (grid, graph with per-node and per-edge units) / systems / scripts (four policies, four "
                "init_state_processing modes, default or explicit t_max) / Euler trajectories (data inline or in a separate file) with independent "
                "unit systems at every level, per-environment dictionaries, labelled and unlabelled reactions, empty sides: to_dict -> from_dict, "
                "through JSON text, through save / load in a scratch directory, to_dict twice (stability), up to 6 randomly chosen key aliases "
                "substituted anywhere in the nested dictionary, and for systems a multi-file layout (network in a sub-directory, space, state as "
                ".npy, chemostats as text; relative and absolute paths), for scripts a nested layout (the script names a system file in another "
                "directory, which names its own network / space / state / chemostats files, the grid space its environments file). The physical content (every quantity in SI, labels, stoichiometry, "
                "geometry, flags, unit systems, sampling parameters, mode, seed, times, data) of each result is compared with the original's in "
                "Coq. non-trivial = at least two round trips were possible")
    core.decide(run, items, IMPORTS, "accept_C12", oracle, shard=30)
    # object level: the modelled species writer / reader against species_to_dict / species_from_dict, dictionary for dictionary
    ns = 80 if run.tier == "quick" else 800
    sitems = species_items([make_species_case(rng) for _ in range(ns)])
    for it in sitems:
        for label, _, _ in it["obs"].get("variants", []):
            run.count("species_variant:" + label.split(":")[0])
    core.decide(run, sitems, IMPORTS, "accept_C12_species", oracle_species, shard=40)
    ritems = reaction_items([make_reaction_case(rng) for _ in range(ns)])
    for it in ritems:
        for label, _, _ in it["obs"].get("variants", []):
            run.count("reaction_variant:" + label.split(":")[0])
    core.decide(run, ritems, IMPORTS, "accept_C12_reaction", oracle_species, shard=40)
    nitems = network_items([make_network_case(rng) for _ in range(ns // 2)])
    for it in nitems:
        for label, _, _ in it["obs"].get("variants", []):
            run.count("network_variant:" + label.split(":")[0])
    core.decide(run, nitems, IMPORTS, "accept_C12_network", oracle_species, shard=15)
    gitems = grid_items([make_grid_case(rng) for _ in range(ns)])
    for it in gitems:
        for label, _, w in it["obs"].get("variants", []):
            run.count("grid_variant:" + label.split(":")[0] + (":rejected" if w is None else ""))
    core.decide(run, gitems, IMPORTS, "accept_C12_grid", oracle_species, shard=40)
    pitems = graph_items([make_graph_case(rng) for _ in range(ns)])
    for it in pitems:
        for label, _, w in it["obs"].get("variants", []):
            run.count("graph_variant:" + label.split(":")[0] + (":rejected" if w is None else ""))
    core.decide(run, pitems, IMPORTS, "accept_C12_graph", oracle_species, shard=30)
    yitems = system_items([make_system_case(rng) for _ in range(ns // 2)])
    for it in yitems:
        for label, _, w in it["obs"].get("variants", []):
            run.count("system_variant:" + label.split(":")[0] + (":rejected" if w is None else ""))
    core.decide(run, yitems, IMPORTS, "accept_C12_system", oracle_species, shard=10)
    citems = script_items([make_script_case(rng) for _ in range(ns // 2)])
    for it in citems:
        for label, _, w in it["obs"].get("variants", []):
            run.count("script_variant:" + label.split(":")[0] + (":rejected" if w is None else ""))
    core.decide(run, citems, IMPORTS, "accept_C12_script", oracle_species, shard=10)
    titems = trajectory_items([make_trajectory_case(rng) for _ in range(ns // 2)])
    for it in titems:
        for label, _, w in it["obs"].get("variants", []):
            run.count("trajectory_variant:" + label.split(":")[0] + (":rejected" if w is None else ""))
    core.decide(run, titems, IMPORTS, "accept_C12_trajectory", oracle_species, shard=6)
    # files: path helpers, text arrays, the two files of a saved trajectory (Model/Files.v, harness/files.py)
    nf = 400 if run.tier == "quick" else 6000
    fitems = files.path_items([files.make_path_case(rng) for _ in range(nf)])
    for it in fitems:
        c = it["case"]
        run.count("path:" + ("absolute" if c["p"].startswith("/") else "empty" if not c["p"] else "relative")
                  + (":has_extension" if it["obs"].get("have") else ""))
        run.count("path_base:" + ("none" if c["base"] is None else "absolute" if c["base"].startswith("/") else "relative"))
    core.decide(run, fitems, IMPORTS, "accept_C12_paths", files.oracle, shard=400)
    xitems = files.text_items([files.make_text_case(rng) for _ in range(nf // 2)])
    for it in xitems:
        run.count("textarray:" + ("loaded:%d" % min(len(it["obs"]["loaded"]), 5) if it["obs"].get("loaded") is not None else "rejected"))
    core.decide(run, xitems, IMPORTS, "accept_C12_textarray", files.oracle, shard=400)
    jitems = files.traj_items([files.make_traj_case(rng, make_trajectory_case(rng)) for _ in range(nf // 8)])
    for it in jitems:
        run.count("trajfiles:" + ("absolute" if it["case"]["absolute"] else "relative") + (":json_given" if it["case"]["p"].endswith(".json") else ""))
    core.decide(run, jitems, IMPORTS, "accept_C12_trajfiles", files.oracle, shard=100)


def replay(run, payload):
    sysgen.POOLS["space"] = ["cm", "mm", "dmm", "cmm", "µm", "nm", "dm"]
    if payload.get("correspondence") == "accept_C12_species":
        core.decide(run, species_items([payload["case"]]), IMPORTS, "accept_C12_species", oracle_species)
        return
    if payload.get("correspondence") == "accept_C12_trajectory":
        core.decide(run, trajectory_items([payload["case"]]), IMPORTS, "accept_C12_trajectory", oracle_species)
        return
    if payload.get("correspondence") == "accept_C12_script":
        core.decide(run, script_items([payload["case"]]), IMPORTS, "accept_C12_script", oracle_species)
        return
    if payload.get("correspondence") == "accept_C12_system":
        core.decide(run, system_items([payload["case"]]), IMPORTS, "accept_C12_system", oracle_species)
        return
    if payload.get("correspondence") == "accept_C12_graph":
        core.decide(run, graph_items([payload["case"]]), IMPORTS, "accept_C12_graph", oracle_species)
        return
    if payload.get("correspondence") == "accept_C12_grid":
        core.decide(run, grid_items([payload["case"]]), IMPORTS, "accept_C12_grid", oracle_species)
        return
    if payload.get("correspondence") == "accept_C12_network":
        core.decide(run, network_items([payload["case"]]), IMPORTS, "accept_C12_network", oracle_species)
        return
    if payload.get("correspondence") == "accept_C12_reaction":
        core.decide(run, reaction_items([payload["case"]]), IMPORTS, "accept_C12_reaction", oracle_species)
        return
    if payload.get("correspondence") in ("accept_C12_paths", "accept_C12_textarray", "accept_C12_trajfiles"):
        f = {"accept_C12_paths": files.path_items, "accept_C12_textarray": files.text_items, "accept_C12_trajfiles": files.traj_items}[payload["correspondence"]]
        core.decide(run, f([payload["case"]]), IMPORTS, payload["correspondence"], files.oracle)
        return
    core.decide(run, build_items([payload["case"]]), IMPORTS, "accept_C12", oracle)
