"""C03 - chemostated entries never change; everything else ignores the flag.
Three families of observations: (a) kinetics.compute_dstatedt(apply_chemostats=True), make_dxdtf and the Euler engine
against the rate law with the flag of that very (species, cell) [accept_C01]; (b) every sample of every engine's
trajectory at the flagged entries [accept_C03_traj]; (c) RDSystem.apply_reaction [accept_C03_apply]; (d) exact replays of the
stochastic engines on systems with reservoir cells / reservoir species (flagged entries as reactants, diffusion sources and
sinks: the unflagged entries must receive exactly the events the propensities and the seed prescribe) [accept_C07]."""
import math
import random
from fractions import Fraction as Fr

from . import core, si, sysgen, trajgen, engine_build, child, c01, c07
from .core import g_float, g_list, g_nat, g_bool

IMPORTS = "Units Grid System Engine EngineBuild AcceptC06 AcceptC05 AcceptC01 AcceptC02"


def rand_chs(rng, n, ns):
    """chemostat maps: none, global per species (never only species 0), per cell, arbitrary subsets; a third of them with flags that
    are integers other than 1 (the documentation itself sets `value=5`; overlapping 0/1 masks added together give 2): any non-zero
    entry is a chemostat"""
    fl = _rand_chs(rng, n, ns)
    if rng.random() < 0.35:
        return [rng.choice([1, 2, 3, 5]) if b else 0 for b in fl]
    return fl


def _rand_chs(rng, n, ns):
    mode = rng.choice(["subset", "subset", "species", "cell", "not_first"])
    if mode == "subset":
        return [rng.random() < 0.35 for _ in range(n * ns)]
    if mode == "species":
        fl = [rng.random() < 0.5 for _ in range(ns)]
        return [fl[s] for s in range(ns) for _ in range(n)]
    if mode == "cell":
        fl = [rng.random() < 0.5 for _ in range(n)]
        return [fl[i] for _ in range(ns) for i in range(n)]
    # only species with index >= 1 are flagged
    return [(s >= 1 and rng.random() < 0.6) for s in range(ns) for _ in range(n)]


def spec_flags(rng, c):
    """the map is not given: it is the one the species' own flags prescribe, per environment with a 'default' entry - truthy defaults
    with explicitly unflagged environments included"""
    envs = c["desc"]["envs"]
    for s in c["desc"]["species"]:
        r = rng.random()
        if r < 0.3:
            s["chstt"] = {"scalar": rng.random() < 0.5}
        else:
            keys = [e for e in envs if rng.random() < 0.7] or [envs[0]]
            ent = [[k, rng.random() < 0.4] for k in keys]
            if rng.random() < 0.7:
                ent.append(["default", rng.random() < 0.7])
            rng.shuffle(ent)
            s["chstt"] = {"dict": ent}
    c["chs"] = sysgen.chs_from_species(c["desc"])
    c["chs_from_species"] = True


# ------------------------------------------------------------------------------ (a) derivative
def observe_deriv(c):
    return c01.observe(c, want=("tables", "dstate", "dstate_chs", "dxdtf", "euler"))


def oracle_deriv(it):
    c, o = it["case"], it["obs"]
    name = ("a flagged (species, cell) entry has zero derivative in compute_dstatedt(apply_chemostats=True) and make_dxdtf and stays "
            "constant under the Euler engine; an unflagged entry has the derivative it has without chemostats")
    ds, dc = o.get("dstate"), o.get("dstate_chs")
    if isinstance(dc, str) or isinstance(ds, str):
        return False, name + " [kinetics raised: %s]" % (dc if isinstance(dc, str) else ds)
    plain = ds[0]
    # same units on both sides: dstate is reported in ue, dstate_chs converted to ue
    for k, fl in enumerate(c["chs"]):
        if fl and dc[k] != 0:
            return False, name + " [entry %d is flagged but its derivative is %r]" % (k, dc[k])
        if not fl and abs(dc[k] - plain[k]) > 1e-9 * max(abs(plain[k]), 1e-300):
            return False, name + " [entry %d is not flagged; derivative %r with chemostats, %r without]" % (k, dc[k], plain[k])
    if isinstance(o.get("dxdtf"), list):
        n = sysgen.ncells(c["desc"])
        for s, v in enumerate(o["dxdtf"]):
            if c["chs"][s * n] and v != 0:
                return False, name + " [dxdtf of flagged species %d is %r]" % (s, v)
    if isinstance(o.get("euler"), list) and len(o["euler"]) > 1:
        for row in o["euler"][1:]:
            for k, fl in enumerate(c["chs"]):
                if fl and row[k] != o["euler"][0][k]:
                    return False, name + " [Euler engine moved flagged entry %d]" % k
    return None, name


# ------------------------------------------------------------------------------ (b) trajectories
def observe_traj(c):
    try:
        r = trajgen.run(c)
        return {"samples": r["samples"], "iterations": r["iterations"]}
    except Exception as e:
        return {"error": "%s: %s" % (type(e).__name__, str(e)[:100])}


def emit_traj(c, o):
    samples = o.get("samples", [[1e300]])
    if len(samples) > 14:
        step = (len(samples) - 1) / 13.0
        samples = [samples[int(round(k * step))] for k in range(14)]
    return g_list([g_bool(b) for b in c["chs"]]), g_list([g_list([g_float(v) for v in row]) for row in samples])


def oracle_traj(it):
    c, o = it["case"], it["obs"]
    name = "every flagged (species, cell) entry keeps exactly its first recorded value in every sample"
    if "error" in o:
        return False, name + " [engine raised: %s]" % o["error"]
    if not o["samples"]:
        return True, name
    s0 = o["samples"][0]
    for n, x in enumerate(o["samples"]):
        for k, fl in enumerate(c["chs"]):
            if fl and x[k] != s0[k]:
                return False, name + " [sample %d entry %d: %r -> %r]" % (n, k, s0[k], x[k])
    return True, name


# ------------------------------------------------------------------------------ (c) apply_reaction
def make_apply_case(rng):
    desc = sysgen.rand_desc(rng, max_species=3, max_cells=6, reactions=True, cubic=True)
    while not desc["reactions"]:
        desc = sysgen.rand_desc(rng, max_species=3, max_cells=6, reactions=True, cubic=True)
    n, ns = sysgen.ncells(desc), len(desc["species"])
    for k, r in enumerate(desc["reactions"]):      # a Reaction object / a string is looked up by its label
        r["label"] = "r%d" % k
    return {"desc": desc, "state": [rng.choice([0.0, 1.0, 2.0, 5.0, 0.5, 12.0]) for _ in range(n * ns)],
            "state_units": sysgen.rand_sys(rng), "chs": rand_chs(rng, n, ns), "reaction": rng.randrange(len(desc["reactions"])),
            "cell": rng.randrange(n), "n": rng.choice([1, 1, 2, -1, -3, 0.5, 0, 7]), "by": rng.choice(["index", "object", "label"]),
            "how": rng.choice(["system", "explicit", "update"])}


def observe_apply(c):
    import strengths
    U = strengths.units
    desc = c["desc"]
    state = U.UnitArray(list(c["state"]), U.Units(sysgen.py_sys(U, c["state_units"]), U.UnitsDimensions(quantity=1)))
    chs = [int(b) for b in c["chs"]]
    try:
        system = sysgen.build_system(strengths, desc, state=state, chemostats=chs)
        pick = lambda sy: (c["reaction"] if c["by"] == "index" else sy.network.reactions[c["reaction"]] if c["by"] == "object"
                           else "r%d" % c["reaction"])
        r = pick(system)
        if c["how"] == "explicit":
            other = sysgen.build_system(strengths, desc)       # default state and flags; the explicit arguments must win
            res = other.apply_reaction(pick(other), position=c["cell"], n=c["n"],
                                       state=state.copy(), chemostats=chs)
        elif c["how"] == "update":
            system.apply_reaction(r, position=c["cell"], n=c["n"], update=True)
            res = system.state
        else:
            res = system.apply_reaction(r, position=c["cell"], n=c["n"])
        return {"state": [float(v) for v in res.convert(state.units).value]}
    except Exception as e:
        return {"error": "%s: %s" % (type(e).__name__, str(e)[:100])}


def emit_apply(c, o):
    gc = ("{| ca_sys := %s; ca_state := {| st_v := %s; st_u := %s |}; ca_chs := %s; ca_reaction := %s; ca_cell := %s; ca_n := %s |}" % (
        sysgen.g_system(c["desc"]), g_list([g_float(v) for v in c["state"]]), si.g_usys(c["state_units"]),
        g_list([g_bool(b) for b in c["chs"]]), g_nat(c["reaction"]), g_nat(c["cell"]), g_float(c["n"])))
    return "(%s)" % gc, g_list([g_float(v) for v in o.get("state", [1e300])])


def oracle_apply(it):
    c, o = it["case"], it["obs"]
    name = ("apply_reaction adds n x (products - substrates) molecules to the unflagged entries of the chosen cell and "
            "changes nothing else")
    if "error" in o:
        return False, name + " [raised: %s]" % o["error"]
    desc = c["desc"]
    n, ns = sysgen.ncells(desc), len(desc["species"])
    r = desc["reactions"][c["reaction"]]
    f = Fr(1) / si.SI_AMOUNT[c["state_units"][2]]
    for s, sp in enumerate(desc["species"]):
        for i in range(n):
            k = s * n + i
            exp = Fr(c["state"][k])
            if i == c["cell"] and not c["chs"][k]:
                exp += (r["prod"].get(sp["label"], 0) - r["sub"].get(sp["label"], 0)) * Fr(c["n"]) * f
            if abs(Fr(o["state"][k]) - exp) > Fr(1, 10**9) * (abs(exp) + abs(Fr(c["state"][k]))):
                return False, name + " [entry %d: expected %s, got %r]" % (k, float(exp), o["state"][k])
    return True, name


# ------------------------------------------------------------------------------ (d) flagged entries feed their neighbours
def make_reservoir_case(rng, tier, leaky=False):
    """a stochastic run where flagged entries matter as sources: a whole cell (every species) or a whole species is flagged and
    well stocked, the rest starts almost empty - what the free entries gain comes out of the flagged ones"""
    while True:
        c = c07.make_case(rng, tier)
        sp = c["desc"]["space"]
        # mostly systems in which a reservoir has somewhere to leak to: two cells or more, connected
        if (not leaky and rng.random() < 0.25) or (sysgen.ncells(c["desc"]) >= 2 and (sp["type"] == "grid" or sp["edges"])):
            break
    if leaky or rng.random() < 0.6:
        # diffusion alone sets the pace: every species moves, the time step is tuned to the hops (with reactions around, the step is
        # tuned to the fastest reaction and a reservoir may not lose a single molecule in the whole run)
        c["desc"]["reactions"] = []
        for s_ in c["desc"]["species"]:
            s_["D"] = {"scalar": {"bare": rng.choice([0.5, 1.0, 2.0, 4.0])}}
        trajgen.tune_time_step(c, target=0.08)
    n, ns = sysgen.ncells(c["desc"]), len(c["desc"]["species"])
    mode = rng.choice(["cell", "cell", "species", "cell_but_one", "mixed"])
    chs = [False] * (n * ns)
    if mode in ("cell", "cell_but_one", "mixed"):
        i = rng.randrange(n)
        for s in range(ns):
            chs[s * n + i] = True
        if mode == "cell_but_one" and ns > 1:
            chs[rng.randrange(ns) * n + i] = False
        if mode == "mixed":
            chs = [b or rng.random() < 0.2 for b in chs]
    else:
        s = rng.randrange(ns)
        for i in range(n):
            chs[s * n + i] = True
    c["state"] = [float(rng.randint(5, 40)) if b else float(rng.choice([0, 0, 0, 1, 2])) for b in chs]
    c["chs"] = [rng.choice([1, 2, 3, 5]) if b else 0 for b in chs] if rng.random() < 0.3 else chs
    return c


# ------------------------------------------------------------------------------ driver
def build_all(rng, tier, run=None):
    sysgen.POOLS["space"] = ["cm", "mm", "dmm", "cmm", "µm", "nm", "dm"]
    engine_build.build(False)
    nd, nt, na = (110, 900, 150) if tier == "quick" else (2500, 20000, 3000)
    # (a)
    deriv = []
    for k in range(nd + nd // 3):
        # the last quarter are single-cell systems: the exported ODE right-hand side (make_dxdtf) exists for those only
        c = c01.make_case(rng, steps=rng.choice([1, 1, 1, 2]), max_cells=(6 if k < nd else 1))
        n, ns = sysgen.ncells(c["desc"]), len(c["desc"]["species"])
        c["chs"] = rand_chs(rng, n, ns)
        if rng.random() < 0.3:
            spec_flags(rng, c)
        deriv.append(c)
    # (b)
    traj = []
    for _ in range(nt):
        c = trajgen.make_sim_case(rng, max_cells=6, max_steps=200 if tier == "quick" else 2000)
        n, ns = sysgen.ncells(c["desc"]), len(c["desc"]["species"])
        c["chs"] = rand_chs(rng, n, ns)
        if rng.random() < 0.3:
            spec_flags(rng, c)
        traj.append(c)
    # (c)
    app = [make_apply_case(rng) for _ in range(na)]
    return deriv, traj, app


def items_deriv(cases, run=None):
    obs = child.map_children("c03", "observe_deriv", cases, timeout=60)
    items = []
    for c, o in zip(cases, obs):
        if "timeout" in o or "crash" in o or "error" in o:
            if run:
                run.count("deriv_discarded")
            continue
        try:
            gc, go = c01.emit(c, o)
        except ValueError:
            if run:
                run.count("deriv_nonfinite")
            continue
        items.append({"case": c, "obs": o, "gcase": gc, "gobs": go, "nontrivial": any(c["chs"])})
    return items


def items_traj(cases, run=None):
    obs = child.map_children("c03", "observe_traj", cases, timeout=6)
    items = []
    for c, o in zip(cases, obs):
        if "timeout" in o or "crash" in o:
            if run:
                run.count("traj_discarded_timeout")
            continue
        if not all(math.isfinite(v) for x in o.get("samples", []) for v in x):
            if run:
                run.count("traj_nonfinite")
            continue
        items.append({"case": c, "obs": o, "nontrivial": any(c["chs"]) and len(o.get("samples", [])) > 1})
    return items


def items_apply(cases, run=None):
    obs = child.map_children("c03", "observe_apply", cases, timeout=30)
    items = []
    for c, o in zip(cases, obs):
        if "timeout" in o or "crash" in o:
            o = {"error": "timeout or crash"}
        gc, go = emit_apply(c, o)
        items.append({"case": c, "obs": o, "gcase": gc, "gobs": go, "nontrivial": any(c["chs"])})
    return items


def check(run):
    rng = random.Random(run.seed)
    import time
    t0 = time.time()
    deriv, traj, app = build_all(rng, run.tier, run)
    t1 = time.time()
    it_d = items_deriv(deriv, run)
    t2 = time.time()
    it_t = items_traj(traj, run)
    t3 = time.time()
    it_a = items_apply(app, run)
    t4 = time.time()
    run.extra["phase_seconds"] = {"generate": round(t1 - t0, 1), "observe_derivative": round(t2 - t1, 1),
                                  "observe_trajectories": round(t3 - t2, 1), "observe_apply": round(t4 - t3, 1)}
    print("phases", run.extra["phase_seconds"], flush=True)
    ncoq = 150 if run.tier == "quick" else 3000
    flagged = [it for it in it_t[ncoq:] if oracle_traj(it)[0] is False][:20]
    run.extra["trajectories_screened_by_property_oracle"] = len(it_t)
    run.extra["engine_iterations"] = sum(it["obs"].get("iterations", 0) for it in it_t)
    it_t = it_t[:ncoq] + flagged
    for it in it_t:
        it["gcase"], it["gobs"] = emit_traj(it["case"], it["obs"])
        run.count("traj:%s:%s" % (it["case"]["engine"], it["case"]["desc"]["space"]["type"]))
        k = sum(1 for b in it["case"]["chs"] if b)
        run.count("traj_flagged:%s" % ("0" if k == 0 else "some" if k < len(it["case"]["chs"]) else "all"))
    for it in it_d:
        run.count("deriv:%s" % it["case"]["desc"]["space"]["type"])
    for it in it_a:
        run.count("apply:%s:%s" % (it["case"]["how"], it["case"]["by"]))
    run.rule = ("(a) random systems as in C01 with chemostat maps drawn as arbitrary subsets / whole species / whole cells / only species of "
                "index >= 1: compute_dstatedt with and without chemostats, make_dxdtf, 1-3 steps of the Euler engine, compared in Coq with the "
                "rate law under the flag of that very (species, cell); (b) trajectories of the three engines on grid and graph, four sampling "
                "policies: all are screened by the property oracle, a fixed-size prefix and every objection are judged in Coq (flagged entries "
                "equal in all samples); (c) apply_reaction by index / object, on the system state / an explicit state and map / with update, "
                "n positive, negative, fractional, zero; (d) Gillespie and tau-leap runs on systems with a reservoir cell (every species flagged) / "
                "a reservoir species / a reservoir cell with one free species, well stocked, the rest nearly empty, replayed exactly from "
                "the seed as in C07 (every event / firing count the propensities prescribe must arrive in the free entries). non-trivial = at least one flagged entry (and two samples for trajectories)")
    core.decide(run, it_d, IMPORTS, "accept_C01", oracle_deriv, shard=20)
    core.decide(run, it_t, IMPORTS, "accept_C03_traj", oracle_traj, shard=60)
    core.decide(run, it_a, IMPORTS, "accept_C03_apply", oracle_apply, shard=40)
    # (d)
    ns_ = 100 if run.tier == "quick" else 500
    it_s = c07.build_items([make_reservoir_case(rng, run.tier) for _ in range(ns_)], run)
    for it in it_s:
        run.count("reservoir:%s:%s" % (it["case"]["engine"], it["case"]["desc"]["space"]["type"]))
    res = core.decide(run, it_s, c07.IMPORTS, "accept_C07", c07.oracle, shard=6)
    c07.summarise(run, res)


def replay(run, payload):
    sysgen.POOLS["space"] = ["cm", "mm", "dmm", "cmm", "µm", "nm", "dm"]
    engine_build.build(False)
    acc = payload["correspondence"]
    c = payload["case"]
    if acc == "accept_C01":
        core.decide(run, items_deriv([c]), IMPORTS, acc, oracle_deriv)
    elif acc == "accept_C03_traj":
        its = items_traj([c])
        for it in its:
            it["gcase"], it["gobs"] = emit_traj(it["case"], it["obs"])
        core.decide(run, its, IMPORTS, acc, oracle_traj)
    elif acc == "accept_C07":
        core.decide(run, c07.build_items([c]), c07.IMPORTS, acc, c07.oracle)
    else:
        core.decide(run, items_apply([c]), IMPORTS, acc, oracle_apply)
