"""Random reaction-diffusion system descriptions, built both as objects of the real package and
as Gallina terms of Model/System.v.  A description is a JSON-able dict (see rand_desc)."""
from . import si
from .core import g_float, g_list, g_z, g_nat, g_bool

DIMS = {"dens": (-3, 0, 1), "D": (2, -1, 0), "vol": (3, 0, 0), "surface": (2, 0, 0), "distance": (1, 0, 0),
        "amount": (0, 0, 1), "time": (0, 1, 0)}


def kdim(order):
    return (3 * order - 3, -1, 1 - order)


# ------------------------------------------------------------------------------ quantities
def qty_resolved(q, owner_sys, dim):
    """(value, sys3, dim3) denoted by a quantity description in the context of its owner."""
    if "bare" in q:
        return (q["bare"], tuple(owner_sys), tuple(dim))
    return (q["v"], tuple(q["sys"]), tuple(dim))


def g_qty(q, owner_sys, dim):
    v, s, d = qty_resolved(q, owner_sys, dim)
    return "{| qv := %s; qu := %s; qd := %s |}" % (g_float(v), si.g_usys(s), si.g_dim(d))


def py_qty(U, q, dim):
    """what is handed to the package: a bare number or a UnitValue with explicit units"""
    if "bare" in q:
        return q["bare"]
    return U.UnitValue(q["v"], U.Units(U.UnitsSystem(space=q["sys"][0], time=q["sys"][1], quantity=q["sys"][2]),
                                       U.UnitsDimensions(space=dim[0], time=dim[1], quantity=dim[2])))


def py_sys(U, s):
    return U.UnitsSystem(space=s[0], time=s[1], quantity=s[2])


def g_envval(ev, owner_sys, dim, labels, leaf=None):
    leaf = leaf or (lambda q: g_qty(q, owner_sys, dim))
    if "scalar" in ev:
        return "(Scalar %s)" % leaf(ev["scalar"])
    items = []
    for k, q in ev["dict"]:
        key = "None" if k == "default" else "(Some %s)" % g_nat(labels[k])
        items.append("(%s, %s)" % (key, leaf(q)))
    return "(PerEnv %s)" % g_list(items)


def py_envval(U, ev, dim, leaf=None):
    leaf = leaf or (lambda q: py_qty(U, q, dim))
    if "scalar" in ev:
        return leaf(ev["scalar"])
    # adjacent entries stating the same quantity are handed over under one grouped key ("e0, e1": the documented way to give several
    # environments one value), with or without blanks around the comma; the description itself keeps one entry per environment
    import json
    import zlib
    out, entries, i = {}, ev["dict"], 0
    while i < len(entries):
        j = i + 1
        while j < len(entries) and json.dumps(entries[j][1], sort_keys=True) == json.dumps(entries[i][1], sort_keys=True):
            j += 1
        keys = [k for k, _ in entries[i:j]]
        if len(keys) > 1 and all(k != "" for k in keys):
            style = zlib.crc32("|".join(keys).encode()) % 4
            key = [",", ", ", " , ", " ,"][style].join(keys)
            if style == 2:
                key = " " + key + " "
            out[key] = leaf(entries[i][1])
        else:
            for k, q in entries[i:j]:
                out[k] = leaf(q)
        i = j
    return out


# ------------------------------------------------------------------------------ random descriptions
POOLS = {"space": list(si.SPACE), "time": list(si.TIME), "amount": list(si.AMOUNT)}


def rand_sys(rng, p_default=0.3):
    if rng.random() < p_default:
        return ["µm", "s", "molecule"]
    return [rng.choice(POOLS["space"]), rng.choice(POOLS["time"]), rng.choice(POOLS["amount"])]


def rand_val(rng, lo=-2, hi=2, zero=0.15):
    if rng.random() < zero:
        return 0.0
    # short binary mantissas keep the exact rationals of the model small (vm_compute cost)
    return rng.randint(1, 40) / 4.0 * 2.0 ** rng.randint(3 * lo, 3 * hi)


def rand_qty(rng, owner_sys, zero=0.15, lo=-2, hi=2):
    v = rand_val(rng, lo, hi, zero)
    if rng.random() < 0.5:
        return {"bare": v}
    return {"v": v, "sys": rand_sys(rng, 0.2)}


def rand_envval(rng, envs, mk, p_dict=0.5):
    if rng.random() > p_dict:
        return {"scalar": mk()}
    keys = [e for e in envs if rng.random() < 0.6]
    if rng.random() < 0.5:
        keys.append("default")
    rng.shuffle(keys)
    entries = [[k, mk()] for k in keys]
    if len(entries) >= 2 and rng.random() < 0.3:
        import copy
        entries[1][1] = copy.deepcopy(entries[0][1])       # two environments with one value (handed over under a grouped key)
    return {"dict": entries}


def rand_cubic(rng):
    """(volume quantity, edge quantity) with volume = edge^3 exactly (edge = k/4)."""
    h = rng.randint(1, 12) / 4.0
    if rng.random() < 0.5:
        return {"bare": h ** 3}, {"bare": h}
    s = rand_sys(rng, 0.2)
    return {"v": h ** 3, "sys": s}, {"v": h, "sys": s}


def rand_space(rng, nenv, max_cells=8, kind=None, hetero_units=True, cubic=False, self_loops=False):
    kind = kind or rng.choice(["grid", "graph"])
    units = rand_sys(rng)
    if cubic:
        return rand_space_cubic(rng, nenv, max_cells, kind, units, hetero_units)
    if kind == "grid":
        while True:
            w, h, d = rng.randint(1, 4), rng.randint(1, 3), rng.randint(1, 2)
            if w * h * d <= max_cells:
                break
        return {"type": "grid", "w": w, "h": h, "d": d, "per": [rng.random() < 0.4 for _ in range(3)],
                "env": [rng.randrange(nenv) for _ in range(w * h * d)],
                "vol": rand_qty(rng, units, zero=0.0, lo=-1, hi=1), "units": units}
    n = rng.randint(1, max_cells)
    nodes = [{"vol": rand_qty(rng, units, zero=0.0, lo=-1, hi=1), "env": rng.randrange(nenv),
              "units": (rand_sys(rng) if hetero_units and rng.random() < 0.5 else units)} for _ in range(n)]
    edges, seen = [], set()
    for _ in range(0 if rng.random() < 0.1 else rng.randint(n, 3 * n)):
        i, j = rng.randrange(n), rng.randrange(n)
        if i == j or (min(i, j), max(i, j)) in seen:
            continue
        seen.add((min(i, j), max(i, j)))
        eu = rand_sys(rng) if hetero_units and rng.random() < 0.5 else units
        edges.append({"i": i, "j": j, "surface": rand_qty(rng, eu, zero=0.0, lo=-1, hi=1),
                      "distance": rand_qty(rng, eu, zero=0.0, lo=-1, hi=1), "units": eu})
    return {"type": "graph", "nodes": nodes, "edges": edges, "units": units}


def rand_space_cubic(rng, nenv, max_cells, kind, units, hetero_units):
    if kind == "grid":
        while True:
            w, h, d = rng.randint(1, 4), rng.randint(1, 3), rng.randint(1, 2)
            if w * h * d <= max_cells:
                break
        vol, edge = rand_cubic(rng)
        return {"type": "grid", "w": w, "h": h, "d": d, "per": [rng.random() < 0.4 for _ in range(3)],
                "env": [rng.randrange(nenv) for _ in range(w * h * d)], "vol": vol, "edge": edge, "units": units}
    n = rng.randint(1, max_cells)
    nodes = []
    for _ in range(n):
        vol, edge = rand_cubic(rng)
        nodes.append({"vol": vol, "edge": edge, "env": rng.randrange(nenv),
                      "units": (rand_sys(rng) if hetero_units and rng.random() < 0.5 else units)})
    edges, seen = [], set()
    for _ in range(0 if rng.random() < 0.1 else rng.randint(n, 3 * n)):
        i, j = rng.randrange(n), rng.randrange(n)
        if i == j or (min(i, j), max(i, j)) in seen:
            continue
        seen.add((min(i, j), max(i, j)))
        eu = rand_sys(rng) if hetero_units and rng.random() < 0.5 else units
        edges.append({"i": i, "j": j, "surface": rand_qty(rng, eu, zero=0.0, lo=-1, hi=1),
                      "distance": rand_qty(rng, eu, zero=0.0, lo=-1, hi=1), "units": eu})
    return {"type": "graph", "nodes": nodes, "edges": edges, "units": units}


def rand_reaction(rng, labels, envs):
    def side():
        d = {}
        for _ in range(rng.choice([0, 1, 1, 2, 2, 3])):
            l = rng.choice(labels)
            d[l] = d.get(l, 0) + rng.choice([1, 1, 2])
        while sum(d.values()) > 4:
            k = rng.choice(list(d))
            d[k] -= 1
            if d[k] == 0:
                del d[k]
        return d
    ru = rand_sys(rng)
    return {"sub": side(), "prod": side(), "units": ru,
            "kf": rand_envval(rng, envs, lambda: rand_qty(rng, ru, zero=0.2, lo=-1, hi=1)),
            "kr": rand_envval(rng, envs, lambda: rand_qty(rng, ru, zero=0.3, lo=-1, hi=1))}


def edge_list(desc):
    """edge quantity descriptions per cell (grid: a single one), with the system they are bare in"""
    sp = desc["space"]
    if sp["type"] == "grid":
        return [(sp["edge"], sp["units"])]
    return [(n["edge"], n["units"]) for n in sp["nodes"]]


def rand_desc(rng, max_species=3, max_cells=8, reactions=False, space_kind=None, max_env=3, cubic=False, max_reactions=3):
    nenv = rng.randint(1, max_env)
    envs = ["e%d" % i for i in range(nenv)]
    if rng.random() < 0.2:
        envs[0] = ""                      # the library's own default environment name
    species = []
    for k in range(rng.randint(1, max_species)):
        su = rand_sys(rng)
        species.append({"label": "ABCDEFG"[k], "units": su,
                        "D": rand_envval(rng, envs, lambda: rand_qty(rng, su, zero=0.25)),
                        "dens": rand_envval(rng, envs, lambda: rand_qty(rng, su)),
                        "chstt": rand_envval(rng, envs, lambda: rng.random() < 0.4, p_dict=0.4)})
    desc = {"envs": envs, "net_units": rand_sys(rng), "sys_units": rand_sys(rng), "species": species,
            "reactions": [], "space": rand_space(rng, nenv, max_cells, space_kind, cubic=cubic)}
    if reactions:
        labels = [s["label"] for s in species]
        desc["reactions"] = [rand_reaction(rng, labels, envs) for _ in range(rng.randint(0, max_reactions))]
    # objects with a past: built in one units system, given another before use (what was stated keeps its meaning)
    if rng.random() < 0.2:
        reassign_leaf_units(rng, desc)
    if rng.random() < 0.15:
        reassign_space_units(rng, desc)
    return desc


def cell_env_indices(desc):
    sp = desc["space"]
    return list(sp["env"]) if sp["type"] == "grid" else [nd["env"] for nd in sp["nodes"]]


def chs_from_species(desc):
    """the default chemostat map the species' own flags prescribe (species-major): the entry of the cell's environment, else the
    'default' entry, else not flagged"""
    out = []
    envs = cell_env_indices(desc)
    for s in desc["species"]:
        spec = s["chstt"]
        for e in envs:
            if "scalar" in spec:
                out.append(bool(spec["scalar"]))
            else:
                d = dict((k, v) for k, v in spec["dict"])
                out.append(bool(d.get(desc["envs"][e], d.get("default", False))))
    return out


def ncells(desc):
    sp = desc["space"]
    return sp["w"] * sp["h"] * sp["d"] if sp["type"] == "grid" else len(sp["nodes"])


# ------------------------------------------------------------------------------ building with the real package
BC = {False: "reflecting", True: "periodical"}


def _explicit_in(q, old):
    return {"sys": list(old), "v": q["bare"]} if "bare" in q else q


def _explicit_env(ev, old):
    if "scalar" in ev:
        return {"scalar": _explicit_in(ev["scalar"], old)}
    return {"dict": [[k, _explicit_in(q, old)] for k, q in ev["dict"]]}


def reassign_leaf_units(rng, desc, p=0.5):
    """species and reactions built in one units system and given another afterwards: what was stated at construction keeps its
    physical meaning (the description states it explicitly in the old units), later bare numbers are read in the new one"""
    for s in desc["species"]:
        if rng.random() < p and "built_in" not in s:
            old = list(s["units"])
            s["D"], s["dens"] = _explicit_env(s["D"], old), _explicit_env(s["dens"], old)
            s["built_in"], s["units"] = old, list(rand_sys(rng))
    for r in desc["reactions"]:
        if rng.random() < p and "built_in" not in r:
            old = list(r["units"])
            r["kf"], r["kr"] = _explicit_env(r["kf"], old), _explicit_env(r["kr"], old)
            r["built_in"], r["units"] = old, list(rand_sys(rng))
    return desc


def build_species(strengths, s):
    U = strengths.units
    if s.get("built_in"):
        # (a bare number put into the description after the re-assignment was recorded reads in the current units, as the models read it)
        first = dict(s, units=s["built_in"], D=_explicit_env(s["D"], s["units"]), dens=_explicit_env(s["dens"], s["units"]))
        del first["built_in"]
        sp = build_species(strengths, first)
        sp.units_system = py_sys(U, s["units"])
        return sp
    chs = s["chstt"]
    chs = chs["scalar"] if "scalar" in chs else {k: v for k, v in chs["dict"]}
    return strengths.Species(label=s["label"], D=py_envval(U, s["D"], DIMS["D"]), density=py_envval(U, s["dens"], DIMS["dens"]),
                             chstt=chs, units_system=py_sys(U, s["units"]))


def reassign_space_units(rng, desc):
    """the space is built in one units system and given another afterwards (a documented use of the `units_system` property): what was
    stated at construction keeps its physical meaning, so the description becomes 'quantities explicit in the old units, space in
    the new ones' and `built_in` tells build_space to take that road"""
    sp = desc["space"]
    old = list(sp["units"])

    def explicit(q):
        return {"sys": old, "v": q["bare"]} if "bare" in q else q
    if sp["type"] == "grid":
        sp["vol"] = explicit(sp["vol"])
        if "edge" in sp:
            sp["edge"] = explicit(sp["edge"])       # the edge length kept beside the volume for the models is a statement in the old units too
    sp["built_in"] = old
    sp["units"] = list(rand_sys(rng))
    return desc


def build_space(strengths, sp):
    U = strengths.units
    if sp.get("built_in"):
        first = dict(sp, units=sp["built_in"])
        if sp["type"] == "grid":
            first["vol"] = _explicit_in(sp["vol"], sp["units"])
        del first["built_in"]
        space = build_space(strengths, first)
        space.units_system = py_sys(U, sp["units"])
        return space
    if sp["type"] == "grid":
        return strengths.RDGridSpace(w=sp["w"], h=sp["h"], d=sp["d"], cell_env=list(sp["env"]),
                                     cell_vol=py_qty(U, sp["vol"], DIMS["vol"]),
                                     boundary_conditions={a: BC[p] for a, p in zip("xyz", sp["per"])},
                                     units_system=py_sys(U, sp["units"]))
    from strengths.rdspace import RDGraphSpaceNode, RDGraphSpaceEdge
    nodes = [RDGraphSpaceNode(volume=py_qty(U, n["vol"], DIMS["vol"]), environment=n["env"], units_system=py_sys(U, n["units"]))
             for n in sp["nodes"]]
    edges = [RDGraphSpaceEdge(i=e["i"], j=e["j"], surface=py_qty(U, e["surface"], DIMS["surface"]),
                              distance=py_qty(U, e["distance"], DIMS["distance"]), units_system=py_sys(U, e["units"]))
             for e in sp["edges"]]
    return strengths.RDGraphSpace(nodes=nodes, edges=edges, units_system=py_sys(U, sp["units"]))


def build_reaction(strengths, r):
    U = strengths.units
    if r.get("built_in"):
        first = dict(r, units=r["built_in"], kf=_explicit_env(r["kf"], r["units"]), kr=_explicit_env(r["kr"], r["units"]))
        del first["built_in"]
        re_ = build_reaction(strengths, first)
        re_.units_system = py_sys(U, r["units"])
        return re_
    osub = sum(r["sub"].values())
    oprod = sum(r["prod"].values())
    return strengths.Reaction(stoichiometry=[dict(r["sub"]), dict(r["prod"])],
                              kf=py_envval(U, r["kf"], kdim(osub)), kr=py_envval(U, r["kr"], kdim(oprod)),
                              label=r.get("label"), units_system=py_sys(U, r["units"]))


def build_network(strengths, desc):
    U = strengths.units
    return strengths.RDNetwork(species=[build_species(strengths, s) for s in desc["species"]],
                               reactions=[build_reaction(strengths, r) for r in desc["reactions"]],
                               environments=list(desc["envs"]), units_system=py_sys(U, desc["net_units"]))


def build_system(strengths, desc, **kw):
    U = strengths.units
    return strengths.RDSystem(network=build_network(strengths, desc), space=build_space(strengths, desc["space"]),
                              units_system=py_sys(U, desc["sys_units"]), **kw)


# ------------------------------------------------------------------------------ Gallina
def label_table(desc):
    t = {}
    for e in desc["envs"]:
        t.setdefault(e, len(t))
    return t


def species_table(desc):
    return {s["label"]: i + 100 for i, s in enumerate(desc["species"])}


def g_species(s, envl, spl):
    return ("{| sp_label := %s; sp_D := %s; sp_dens := %s; sp_chs := %s |}" % (
        g_nat(spl[s["label"]]), g_envval(s["D"], s["units"], DIMS["D"], envl),
        g_envval(s["dens"], s["units"], DIMS["dens"], envl),
        g_envval(s["chstt"], None, None, envl, leaf=g_bool)))


def g_reaction(r, envl, spl):
    osub = sum(r["sub"].values())
    oprod = sum(r["prod"].values())
    side = lambda d: g_list(["(%s, %s)" % (g_nat(spl[k]), g_z(v)) for k, v in d.items()])
    return "{| r_sub := %s; r_prod := %s; r_kf := %s; r_kr := %s |}" % (
        side(r["sub"]), side(r["prod"]), g_envval(r["kf"], r["units"], kdim(osub), envl),
        g_envval(r["kr"], r["units"], kdim(oprod), envl))


def g_grid(sp):
    return "{| gw := %d; gh := %d; gd := %d; px := %s; py := %s; pz := %s |}" % (
        sp["w"], sp["h"], sp["d"], g_bool(sp["per"][0]), g_bool(sp["per"][1]), g_bool(sp["per"][2]))


def g_space(sp):
    if sp["type"] == "grid":
        return "(SGrid %s %s %s %s)" % (g_grid(sp), g_list([g_z(e) for e in sp["env"]]),
                                        g_qty(sp["vol"], sp["units"], DIMS["vol"]), si.g_usys(sp["units"]))
    nodes = g_list(["(%s, %s)" % (g_qty(n["vol"], n["units"], DIMS["vol"]), g_z(n["env"])) for n in sp["nodes"]])
    edges = g_list(["(%s, %s, %s, %s)" % (g_z(e["i"]), g_z(e["j"]), g_qty(e["surface"], e["units"], DIMS["surface"]),
                                          g_qty(e["distance"], e["units"], DIMS["distance"])) for e in sp["edges"]])
    return "(SGraph %s %s %s)" % (nodes, edges, si.g_usys(sp["units"]))


def g_network(desc):
    envl, spl = label_table(desc), species_table(desc)
    return "{| n_species := %s; n_reactions := %s; n_envs := %s; n_units := %s |}" % (
        g_list([g_species(s, envl, spl) for s in desc["species"]]),
        g_list([g_reaction(r, envl, spl) for r in desc["reactions"]]),
        g_list([g_nat(envl[e]) for e in desc["envs"]]), si.g_usys(desc["net_units"]))


def g_system(desc):
    return "{| sy_net := %s; sy_space := %s; sy_units := %s |}" % (g_network(desc), g_space(desc["space"]),
                                                                  si.g_usys(desc["sys_units"]))
