"""Translator (fail-closed): the unit tables of /repo/src/strengths/units.py - `_units_conversion_dict` (symbol -> factor for the
space, time and quantity bases) and `_units_labels_dict` (the symbol lists incl. the litre and molar families) - read with `ast`
from the *current* source on every run and written as Model/UnitTable.v, together with the two if / elif chains nested in
`parse_units` that give the litre symbols their space unit and the molar symbols their amount and space units.  Number literals are taken with the decimal meaning of
their source text (`1e-15` is 1/10^15; that binary64 rounds it is the floats' business, covered by the tolerances of the
correspondence); `constants.avogadro_number()` is the literal returned by that function.  The obligations over these tables
(Proofs/UnitTableFacts.v, Props/C06.v) say that every symbol of the code's tables is a symbol of the model, of the same kind, with
exactly the code's factor, and that the model has no other symbol."""
import ast
import os
from fractions import Fraction
from pathlib import Path

REPO = Path(os.environ.get("VERIF_REPO", "/repo"))
OUT = Path(__file__).resolve().parent.parent / "coq" / "Model" / "UnitTable.v"


class TranslateError(Exception):
    pass


def _avogadro(root):
    src = (root / "constants.py").read_text(encoding="utf-8")
    for n in ast.walk(ast.parse(src)):
        if isinstance(n, ast.FunctionDef) and n.name == "avogadro_number":
            rets = [m for m in ast.walk(n) if isinstance(m, ast.Return)]
            if len(rets) == 1 and isinstance(rets[0].value, ast.Constant) and isinstance(rets[0].value.value, (int, float)):
                return Fraction(ast.get_source_segment(src, rets[0].value))
    raise TranslateError("constants.py: avogadro_number() does not return a number literal")


def _value(src, n, avo, where):
    if isinstance(n, ast.Constant) and isinstance(n.value, (int, float)) and not isinstance(n.value, bool):
        try:
            return Fraction(ast.get_source_segment(src, n))
        except (ValueError, TypeError):
            raise TranslateError("%s: unreadable number literal" % where)
    if isinstance(n, ast.BinOp) and isinstance(n.op, ast.Mult):
        return _value(src, n.left, avo, where) * _value(src, n.right, avo, where)
    if isinstance(n, ast.BinOp) and isinstance(n.op, ast.Div):
        return _value(src, n.left, avo, where) / _value(src, n.right, avo, where)
    if isinstance(n, ast.UnaryOp) and isinstance(n.op, ast.USub):
        return -_value(src, n.operand, avo, where)
    if isinstance(n, ast.BinOp) and isinstance(n.op, ast.Pow):
        e = _value(src, n.right, avo, where)
        b = _value(src, n.left, avo, where)
        if e.denominator == 1 and abs(e) <= 400 and b != 0:
            return b ** int(e)
    if isinstance(n, ast.Call) and not n.args and not n.keywords:
        f = n.func
        name = f.attr if isinstance(f, ast.Attribute) else getattr(f, "id", None)
        if name == "avogadro_number":
            return avo
    raise TranslateError("%s: factor is not a product of number literals and avogadro_number(): %s" % (where, ast.dump(n)[:80]))


def _chain(fn, arity):
    """`if x == "a" : return ... elif x == "b" : return ... else : raise ...` over the function's single parameter, as a table"""
    if len(fn.args.args) != 1 or fn.args.vararg or fn.args.kwarg or fn.args.kwonlyargs or fn.args.defaults:
        raise TranslateError("%s: one plain parameter expected" % fn.name)
    param = fn.args.args[0].arg
    body = [n for n in fn.body if not (isinstance(n, ast.Expr) and isinstance(n.value, ast.Constant))]
    if len(body) != 1 or not isinstance(body[0], ast.If):
        raise TranslateError("%s: a single if / elif chain expected" % fn.name)
    rows, node = [], body[0]
    while True:
        t = node.test
        if not (isinstance(t, ast.Compare) and isinstance(t.left, ast.Name) and t.left.id == param and len(t.ops) == 1
                and isinstance(t.ops[0], ast.Eq) and isinstance(t.comparators[0], ast.Constant) and isinstance(t.comparators[0].value, str)):
            raise TranslateError("%s: a test is not `%s == \"literal\"`" % (fn.name, param))
        if len(node.body) != 1 or not isinstance(node.body[0], ast.Return):
            raise TranslateError("%s: a branch is not a single return" % fn.name)
        v = node.body[0].value
        vals = [v] if arity == 1 else (list(v.elts) if isinstance(v, ast.Tuple) else [])
        if len(vals) != arity or not all(isinstance(e, ast.Constant) and isinstance(e.value, str) for e in vals):
            raise TranslateError("%s: a branch does not return %d string literal(s)" % (fn.name, arity))
        rows.append((t.comparators[0].value, [e.value for e in vals]))
        if len(node.orelse) == 1 and isinstance(node.orelse[0], ast.If):
            node = node.orelse[0]
            continue
        if len(node.orelse) == 1 and isinstance(node.orelse[0], ast.Raise):
            break
        raise TranslateError("%s: the chain does not end by raising" % fn.name)
    if len(set(k for k, _ in rows)) != len(rows):
        raise TranslateError("%s: a symbol is tested twice" % fn.name)
    return rows


def _chains(tree):
    """the two nested helpers of parse_units that give the litre and molar families their base units"""
    pu = [n for n in tree.body if isinstance(n, ast.FunctionDef) and n.name == "parse_units"]
    if len(pu) != 1:
        raise TranslateError("units.py: parse_units not found (once) at module level")
    out = {}
    for name, arity in (("get_volume_fundamental_unit", 1), ("get_concentration_fundamental_units", 2)):
        fns = [n for n in ast.walk(pu[0]) if isinstance(n, ast.FunctionDef) and n.name == name]
        if len(fns) != 1:
            raise TranslateError("parse_units: nested helper %s not found (once)" % name)
        out[name] = _chain(fns[0], arity)
        # the helper is what parse_units calls for these families: it is called, and not shadowed by an assignment
        calls = [n for n in ast.walk(pu[0]) if isinstance(n, ast.Call) and isinstance(n.func, ast.Name) and n.func.id == name]
        stores = [n for n in ast.walk(pu[0]) if isinstance(n, ast.Name) and n.id == name and isinstance(n.ctx, ast.Store)]
        if not calls or stores:
            raise TranslateError("parse_units: %s is not called, or is re-bound" % name)
    return out


def extract(repo=None):
    root = (Path(repo) if repo else REPO) / "src" / "strengths"
    try:
        src = (root / "units.py").read_text(encoding="utf-8")
        tree = ast.parse(src)
        avo = _avogadro(root)
    except (OSError, SyntaxError) as e:
        raise TranslateError(str(e))
    conv = labels = None
    for n in tree.body:
        if isinstance(n, ast.Assign) and len(n.targets) == 1 and isinstance(n.targets[0], ast.Name):
            if n.targets[0].id == "_units_conversion_dict":
                if conv is not None or not isinstance(n.value, ast.Dict):
                    raise TranslateError("_units_conversion_dict: not a single dictionary literal")
                conv = {}
                for k, v in zip(n.value.keys, n.value.values):
                    if not (isinstance(k, ast.Constant) and isinstance(k.value, str) and isinstance(v, ast.Dict)):
                        raise TranslateError("_units_conversion_dict: unexpected entry")
                    rows = []
                    for kk, vv in zip(v.keys, v.values):
                        if not (isinstance(kk, ast.Constant) and isinstance(kk.value, str)):
                            raise TranslateError("_units_conversion_dict[%s]: a key is not a string literal" % k.value)
                        rows.append((kk.value, _value(src, vv, avo, "_units_conversion_dict[%s][%s]" % (k.value, kk.value))))
                    conv[k.value] = rows
            elif n.targets[0].id == "_units_labels_dict":
                if labels is not None or not isinstance(n.value, ast.Dict):
                    raise TranslateError("_units_labels_dict: not a single dictionary literal")
                labels = {}
                for k, v in zip(n.value.keys, n.value.values):
                    if not (isinstance(k, ast.Constant) and isinstance(k.value, str) and isinstance(v, ast.List)
                            and all(isinstance(e, ast.Constant) and isinstance(e.value, str) for e in v.elts)):
                        raise TranslateError("_units_labels_dict: unexpected entry")
                    labels[k.value] = [e.value for e in v.elts]
    if conv is None or labels is None:
        raise TranslateError("units.py: _units_conversion_dict / _units_labels_dict not found at module level")
    # later re-assignments or in-place edits of the tables would make the literals meaningless
    for n in ast.walk(tree):
        if isinstance(n, (ast.Assign, ast.AugAssign, ast.Delete)):
            tg = n.targets if isinstance(n, (ast.Assign, ast.Delete)) else [n.target]
            for t in tg:
                base = t
                while isinstance(base, ast.Subscript):
                    base = base.value
                if isinstance(base, ast.Name) and base.id in ("_units_conversion_dict", "_units_labels_dict") and isinstance(t, ast.Subscript):
                    raise TranslateError("units.py: the unit tables are modified after their definition")
    chains = _chains(tree)
    if sorted(conv) != ["quantity", "space", "time"] or sorted(labels) != ["density", "quantity", "space", "time", "volume"]:
        raise TranslateError("units.py: unexpected set of bases in the unit tables: %s / %s" % (sorted(conv), sorted(labels)))
    return {"conv": conv, "labels": labels, "chains": chains}


def _cp(s):
    return "[" + "; ".join(str(ord(c)) for c in s) + "]"


def _q(f):
    return "(mkq (%d) %d)" % (f.numerator, f.denominator)


def emit(data):
    o = ["(* GENERATED on every run by harness/translate_units.py from /repo/src/strengths/units.py and constants.py (ast): the code's own",
         "   unit tables, number literals taken with the decimal meaning of their source text.  Do not edit. *)",
         "From Coq Require Import NArith ZArith QArith Qcanon List.", "From Verif Require Import Num ReactionText.", "Import ListNotations.", "",
         "Definition mkq (n : Z) (d : positive) : Qc := Q2Qc (n # d).", ""]
    for base in ("space", "time", "quantity"):
        rows = ["  (%s%%N, %s)   (* %s *)" % (_cp(k).replace("; ", "; ").replace("[", "[").replace("]", "]"), _q(v), k) for k, v in data["conv"][base]]
        o.append("Definition code_%s : list (list N * Qc) :=\n  [%s].\n" % (base, ";\n ".join(r.strip() for r in rows)))
    for base in ("space", "time", "quantity", "density", "volume"):
        o.append("Definition code_labels_%s : list (list N) := [%s]%%N.   (* %s *)\n" % (
            base, "; ".join(_cp(l) for l in data["labels"][base]), " ".join(data["labels"][base])))
    ch = data["chains"]
    o.append("(* parse_units: get_volume_fundamental_unit (litre symbol -> space symbol, cubed) *)")
    o.append("Definition code_volume_chain : list (list N * list N) := [%s]%%N.\n" % "; ".join(
        "(%s, %s)" % (_cp(k), _cp(v[0])) for k, v in ch["get_volume_fundamental_unit"]))
    o.append("(* parse_units: get_concentration_fundamental_units (molar symbol -> amount symbol, space symbol cubed) *)")
    o.append("Definition code_molar_chain : list (list N * (list N * list N)) := [%s]%%N.\n" % "; ".join(
        "(%s, (%s, %s))" % (_cp(k), _cp(v[0]), _cp(v[1])) for k, v in ch["get_concentration_fundamental_units"]))
    return "\n".join(o)


STATUS = {"error": None}


def regenerate():
    try:
        text = emit(extract())
    except TranslateError as e:
        STATUS["error"] = str(e)
        return STATUS["error"]
    if not OUT.exists() or OUT.read_text() != text:
        OUT.write_text(text)
    STATUS["error"] = None
    return None


if __name__ == "__main__":
    print(emit(extract()))
