"""C13 - default state / chemostat map and per-entry accessors."""
import random
from fractions import Fraction as Fr

from . import core, si, sysgen
from .core import g_float, g_list, g_z, g_nat, g_bool

IMPORTS = "Units Grid System AcceptC06 AcceptC05 AcceptC13"


class _Pos:
    def __init__(self, x, y, z):
        self.x, self.y, self.z = x, y, z


def py_species_ref(strengths, system, ref):
    if ref[0] == "index":
        return ref[1]
    if ref[0] == "label":
        return ref[1]
    return system.network.species[ref[1]]          # object


def py_pos(ref):
    if ref[0] == "index":
        return ref[1]
    if ref[0] == "tuple":
        import numpy as np
        how = ref[2] if len(ref) > 2 else "tuple"
        return {"tuple": lambda: tuple(ref[1]), "list": lambda: list(ref[1]), "int8": lambda: np.array(ref[1], dtype=np.int8),
                "int64": lambda: np.array(ref[1], dtype=np.int64), "float": lambda: [v + 0.25 for v in ref[1]],
                "float32": lambda: np.array([v + 0.5 for v in ref[1]], dtype=np.float32)}[how]()
    if len(ref) > 2 and ref[2] == "float":
        return _Pos(*[v + 0.25 for v in ref[1]])        # a point inside the cell
    return _Pos(*ref[1])


def py_amount(U, a):
    if "bare" in a:
        return a["bare"]
    dim = a.get("dim", (0, 0, 1))
    return U.UnitValue(a["v"], U.Units(sysgen.py_sys(U, a["sys"]), U.UnitsDimensions(space=dim[0], time=dim[1], quantity=dim[2])))


def observe(desc, ops):
    import strengths
    U = strengths.units
    system = sysgen.build_system(strengths, desc)
    o = {"state0": [float(v) for v in system.state.value], "units0": si.sys_of(system.state.units.sys),
         "dim0": si.dim_of(system.state.units.dim), "chs0": [bool(v) for v in system.chemostats], "results": []}
    for op in ops:
        try:
            if op["op"] == "get_state":
                r = system.get_state(py_species_ref(strengths, system, op["species"]), py_pos(op["pos"]))
                o["results"].append(["qty", float(r.value), si.sys_of(r.units.sys), si.dim_of(r.units.dim)])
            elif op["op"] == "set_state":
                system.set_state(py_species_ref(strengths, system, op["species"]), py_pos(op["pos"]), py_amount(U, op["value"]))
                o["results"].append(["unit"])
            elif op["op"] == "get_chs":
                r = system.get_chemostat(py_species_ref(strengths, system, op["species"]), py_pos(op["pos"]))
                o["results"].append(["flag", bool(r)])
            elif op["op"] == "set_chs":
                system.set_chemostat(py_species_ref(strengths, system, op["species"]), py_pos(op["pos"]), op["value"])
                o["results"].append(["unit"])
            elif op["op"] == "regenerate":
                sp = system.network.species[op["k"]]
                sp.density = sysgen.py_envval(U, op["dens"], sysgen.DIMS["dens"])
                chs = op["chstt"]
                sp.chstt = chs["scalar"] if "scalar" in chs else {k: v for k, v in chs["dict"]}
                system.set_default_state()
                system.set_default_chemostats()
                o["results"].append(["unit"])
        except Exception as e:
            o["results"].append(["raise", type(e).__name__])
    o["state1"] = [float(v) for v in system.state.value]
    o["units1"] = si.sys_of(system.state.units.sys)
    o["chs1"] = [bool(v) for v in system.chemostats]
    return o


def g_sref(desc, ref):
    spl = sysgen.species_table(desc)
    if ref[0] == "index":
        return "(SByIndex %s)" % g_z(ref[1])
    if ref[0] == "label":
        return "(SByLabel %s)" % g_nat(spl.get(ref[1], 999))
    return "(SByLabel %s)" % g_nat(spl[desc["species"][ref[1]]["label"]])


def g_pos(ref):
    if ref[0] == "index":
        return "(PIndex %s)" % g_z(ref[1])
    return "(PCoord (%d, %d, %d))" % tuple(ref[1])


def g_amount(desc, a):
    if "bare" in a:
        return "(ABare %s)" % g_float(a["bare"])
    return "(AQuantity {| qv := %s; qu := %s; qd := %s |})" % (g_float(a["v"]), si.g_usys(a["sys"]), si.g_dim(a.get("dim", (0, 0, 1))))


def emit(c, o):
    desc, ops = c["desc"], c["ops"]
    envl = sysgen.label_table(desc)
    gops = []
    for op in ops:
        if op["op"] == "get_state":
            gops.append("(OpGetState %s %s)" % (g_sref(desc, op["species"]), g_pos(op["pos"])))
        elif op["op"] == "set_state":
            gops.append("(OpSetState %s %s %s)" % (g_sref(desc, op["species"]), g_pos(op["pos"]), g_amount(desc, op["value"])))
        elif op["op"] == "get_chs":
            gops.append("(OpGetChs %s %s)" % (g_sref(desc, op["species"]), g_pos(op["pos"])))
        elif op["op"] == "set_chs":
            gops.append("(OpSetChs %s %s %s)" % (g_sref(desc, op["species"]), g_pos(op["pos"]), g_bool(op["value"])))
        else:
            su = desc["species"][op["k"]]["units"]
            gops.append("(OpRegenerate %s %s %s)" % (g_nat(op["k"]), sysgen.g_envval(op["dens"], su, sysgen.DIMS["dens"], envl),
                                                     sysgen.g_envval(op["chstt"], None, None, envl, leaf=g_bool)))
    gc = "{| c_sys := %s; c_ops := %s |}" % (sysgen.g_system(desc), g_list(gops))

    def gres(r):
        if r[0] == "raise":
            return "RRaise"
        if r[0] == "qty":
            return "(RQty %s %s %s)" % (g_float(r[1]), si.g_usys(r[2]), si.g_dim(r[3]))
        if r[0] == "flag":
            return "(RFlag %s)" % g_bool(r[1])
        return "RUnit"
    go = ("{| o_state0 := %s; o_units0 := %s; o_chs0 := %s; o_results := %s; o_state1 := %s; o_units1 := %s; o_chs1 := %s |}" % (
        g_list([g_float(v) for v in o["state0"]]), si.g_usys(o["units0"]), g_list([g_bool(b) for b in o["chs0"]]),
        g_list([gres(r) for r in o["results"]]),
        g_list([g_float(v) for v in o["state1"]]), si.g_usys(o["units1"]), g_list([g_bool(b) for b in o["chs1"]])))
    return "(%s)" % gc, "(%s)" % go


# ------------------------------------------------------------------------------ independent oracle
def _in_env(ev, env, dflt):
    if "scalar" in ev:
        return ev["scalar"]
    d = dict((k, v) for k, v in ev["dict"])
    if env in d:
        return d[env]
    if "default" in d:
        return d["default"]
    return dflt


def _si_qty(q, owner, dim):
    v, s, d = sysgen.qty_resolved(q, owner, dim)
    return Fr(v) * si.si_scale(s, d)


def expected_default(desc):
    """SI value of every entry of the default state, and the default flags (brute force from the statement)."""
    sp = desc["space"]
    n = sysgen.ncells(desc)
    if sp["type"] == "grid":
        envs = sp["env"]
        vols = [_si_qty(sp["vol"], sp["units"], sysgen.DIMS["vol"])] * n
    else:
        envs = [nd["env"] for nd in sp["nodes"]]
        vols = [_si_qty(nd["vol"], nd["units"], sysgen.DIMS["vol"]) for nd in sp["nodes"]]
    state, chs = [], []
    for s in desc["species"]:
        for c in range(n):
            env = desc["envs"][envs[c]]
            dq = _in_env(s["dens"], env, None)
            dens = Fr(0) if dq is None else _si_qty(dq, s["units"], sysgen.DIMS["dens"])
            state.append(dens * vols[c])
            fl = _in_env(s["chstt"], env, False)
            chs.append(bool(fl))
    return state, chs


def oracle(it):
    c, o = it["case"], it["obs"]
    name = "default state = density(env of cell, else 'default', else 0) x cell volume as an amount, species-major; flags likewise; accessors touch exactly the addressed entry"
    desc = c["desc"]
    st, ch = expected_default(desc)
    if tuple(o["dim0"]) != (0, 0, 1) or len(st) != len(o["state0"]) or ch != o["chs0"]:
        return False, name
    sc = si.si_scale(o["units0"], (0, 0, 1))
    for e, g in zip(st, o["state0"]):
        if abs(Fr(g) * sc - e) > Fr(1, 10**9) * abs(e):
            return False, name
    # accessor sequence: simulate on SI values
    n = sysgen.ncells(desc)
    nsp = len(desc["species"])
    cur = list(st)
    curch = list(ch)
    d = {"envs": desc["envs"], "species": [dict(s) for s in desc["species"]], "space": desc["space"]}

    def sidx(ref):
        if ref[0] == "index":
            return ref[1] if 0 <= ref[1] < nsp else None
        lab = ref[1] if ref[0] == "label" else desc["species"][ref[1]]["label"]
        for i, s in enumerate(desc["species"]):
            if s["label"] == lab:
                return i
        return None

    def cidx(ref):
        sp = desc["space"]
        if ref[0] == "index":
            return ref[1] if 0 <= ref[1] < n else None
        if sp["type"] != "grid":
            return "any"      # graphs accept only indices; int(tuple) raises
        x, y, z = ref[1]
        if 0 <= x < sp["w"] and 0 <= y < sp["h"] and 0 <= z < sp["d"]:
            return z * sp["w"] * sp["h"] + y * sp["w"] + x
        return None
    for op, r in zip(c["ops"], o["results"]):
        if op["op"] == "regenerate":
            d["species"][op["k"]] = dict(d["species"][op["k"]], dens=op["dens"], chstt=op["chstt"])
            cur, curch = expected_default(dict(desc, species=d["species"]))
            cur, curch = list(cur), list(curch)
            continue
        s, ci = sidx(op["species"]), cidx(op["pos"])
        if ci == "any":
            if r[0] != "raise":
                return False, name + " [tuple position on a graph accepted]"
            continue
        if s is None or ci is None:
            if r[0] != "raise":
                return False, name + " [invalid address accepted: %s]" % (op,)
            continue
        k = s * n + ci
        if op["op"] == "get_state":
            if r[0] != "qty" or tuple(r[3]) != (0, 0, 1):
                return False, name
            got = Fr(r[1]) * si.si_scale(r[2], r[3])
            if abs(got - cur[k]) > Fr(1, 10**9) * abs(cur[k]):
                return False, name + " [get_state reads another entry]"
        elif op["op"] == "set_state":
            a = op["value"]
            dim = tuple(a.get("dim", (0, 0, 1)))
            if dim != (0, 0, 1):
                if r[0] != "raise":
                    return False, name + " [wrong dimension accepted]"
                continue
            if r[0] != "unit":
                return False, name
            cur[k] = Fr(a["bare"]) * si.si_scale(desc["sys_units"], (0, 0, 1)) if "bare" in a else Fr(a["v"]) * si.si_scale(a["sys"], (0, 0, 1))
        elif op["op"] == "get_chs":
            if r[0] != "flag" or r[1] != curch[k]:
                return False, name + " [get_chemostat reads another entry]"
        elif op["op"] == "set_chs":
            if r[0] != "unit":
                return False, name
            curch[k] = bool(op["value"])
    sc1 = si.si_scale(o["units1"], (0, 0, 1))
    if len(cur) != len(o["state1"]) or curch != o["chs1"]:
        return False, name + " [final arrays]"
    for e, g in zip(cur, o["state1"]):
        if abs(Fr(g) * sc1 - e) > Fr(1, 10**9) * abs(e):
            return False, name + " [final state]"
    return True, name


# ------------------------------------------------------------------------------ generation
def rand_species_ref(rng, desc, invalid=0.06):
    nsp = len(desc["species"])
    r = rng.random()
    if r < invalid:
        return rng.choice([["index", nsp], ["index", -1], ["label", "nope"]])
    k = rng.randrange(nsp)
    return rng.choice([["index", k], ["label", desc["species"][k]["label"]], ["object", k]])


def rand_pos(rng, desc, invalid=0.08):
    sp = desc["space"]
    n = sysgen.ncells(desc)
    if sp["type"] == "grid":
        if rng.random() < invalid:
            return rng.choice([["index", n], ["index", -1], ["index", n + 3], ["tuple", [sp["w"], 0, 0]], ["tuple", [0, -1, 0]],
                               ["object", [0, 0, sp["d"]]]])
        c = rng.randrange(n)
        xyz = [c % sp["w"], (c // sp["w"]) % sp["h"], c // (sp["w"] * sp["h"])]
        return rng.choice([["index", c], ["tuple", xyz], ["object", xyz],
                           ["tuple", xyz, rng.choice(["list", "int8", "int64", "float", "float32"])], ["object", xyz, rng.choice(["int", "float"])]])
    if rng.random() < invalid:
        return rng.choice([["index", n], ["index", -1]])
    return ["index", rng.randrange(n)]


def rand_ops(rng, desc):
    ops = []
    for _ in range(rng.randint(1, 10)):
        r = rng.random()
        s, p = rand_species_ref(rng, desc), rand_pos(rng, desc)
        if r < 0.3:
            ops.append({"op": "get_state", "species": s, "pos": p})
        elif r < 0.6:
            v = sysgen.rand_val(rng, zero=0.1)
            a = {"bare": v} if rng.random() < 0.4 else {"v": v, "sys": sysgen.rand_sys(rng, 0.1)}
            if "v" in a and rng.random() < 0.1:
                a["dim"] = rng.choice([[0, 0, 2], [1, 0, 1], [0, -1, 1], [0, 0, 0]])
            ops.append({"op": "set_state", "species": s, "pos": p, "value": a})
        elif r < 0.75:
            ops.append({"op": "get_chs", "species": s, "pos": p})
        elif r < 0.9:
            ops.append({"op": "set_chs", "species": s, "pos": p, "value": rng.random() < 0.5})
        else:
            k = rng.randrange(len(desc["species"]))
            su = desc["species"][k]["units"]
            ops.append({"op": "regenerate", "k": k,
                        "dens": sysgen.rand_envval(rng, desc["envs"], lambda: sysgen.rand_qty(rng, su)),
                        "chstt": sysgen.rand_envval(rng, desc["envs"], lambda: rng.random() < 0.5, p_dict=0.4)})
    return ops


def build_items(cases):
    items = []
    for c in cases:
        o = observe(c["desc"], c["ops"])
        gc, go = emit(c, o)
        items.append({"case": c, "obs": o, "gcase": gc, "gobs": go})
    return items


def check(run):
    rng = random.Random(run.seed)
    n = 300 if run.tier == "quick" else 5000
    cases = []
    for _ in range(n):
        desc = sysgen.rand_desc(rng, max_species=3, max_cells=8)
        if rng.random() < 0.3 and not desc["space"].get("built_in"):
            sysgen.reassign_space_units(rng, desc)          # the space changes its units system between construction and use
        cases.append({"desc": desc, "ops": rand_ops(rng, desc)})
    items = build_items(cases)
    for it in items:
        d = it["case"]["desc"]
        run.count("space:" + d["space"]["type"] + (":units_reassigned" if d["space"].get("built_in") else ""))
        run.count("species:%d" % len(d["species"]))
        for op, r in zip(it["case"]["ops"], it["obs"]["results"]):
            run.count("op:%s:%s" % (op["op"], "raise" if r[0] == "raise" else "ok"))
        it["nontrivial"] = len(d["species"]) * sysgen.ncells(d) > 1
    run.rule = ("random systems: 1-3 species with scalar / per-environment ('default', omissions) densities and flags, 1-3 environments "
                "(sometimes the empty default name), grids up to 8 cells with random environment maps and graphs of 1-8 nodes with "
                "per-node volumes and per-node units; independent unit systems for species, network, space, nodes, system; a third of the spaces "
                "are built in one units system and given another before use; then 1-10 "
                "random get/set_state, get/set_chemostat (species by index / label / object, cell by index / tuple / x,y,z object, a few "
                "invalid addresses and wrong dimensions) and species-edit + regenerate calls. non-trivial = more than one entry")
    core.decide(run, items, IMPORTS, "accept_C13", oracle, shard=60)


def replay(run, payload):
    items = build_items([payload["case"]])
    core.decide(run, items, IMPORTS, "accept_C13", oracle)
