"""Common machinery of every check: build the Coq development, audit the property file,
evaluate generated cases inside Coq (vm_compute), verdict / replay / evidence / known findings."""
import fcntl
import hashlib
import json
import math
import os
import re
import subprocess
import sys
import time
from fractions import Fraction
from pathlib import Path

VERIF = Path(__file__).resolve().parent.parent
REPO = Path(os.environ.get("VERIF_REPO", "/repo"))
COQ = VERIF / "coq"
BUILD = VERIF / "build"
CASES = COQ / "Cases"
PY = "/venv/bin/python"
NPROC = int(os.environ.get("VERIF_JOBS", "16"))

COQ_FLAGS = ["-Q", "Model", "Verif", "-Q", "Proofs", "Verif", "-Q", "Props", "Verif"]

FORBIDDEN = re.compile(
    r"\b(Admitted|admit|Axiom|Axioms|Parameter|Parameters|Conjecture|Conjectures|Admit Obligations|"
    r"Unset Guard Checking|Unset Positivity Checking|Unset Universe Checking|bypass_check|"
    r"type-in-type|impredicative-set|native_compute)\b")

# standard-library axioms that a theorem may depend on (each is named in the evidence when it occurs)
ALLOWED_AXIOMS = {
    "ClassicalDedekindReals.sig_forall_dec", "ClassicalDedekindReals.sig_not_dec",
    "FunctionalExtensionality.functional_extensionality_dep", "Classical_Prop.classic",
}


def use_repo():
    """Import the implementation from the working tree, never from an installed copy."""
    src = str(REPO / "src")
    if src not in sys.path:
        sys.path.insert(0, src)
    os.environ["PYTHONPATH"] = src
    os.environ.setdefault("PYTHONHASHSEED", "0")


# ---------------------------------------------------------------------------------------------
# Coq build and audit
# ---------------------------------------------------------------------------------------------

def _lock():
    BUILD.mkdir(exist_ok=True)
    f = open(BUILD / ".coq.lock", "w")
    fcntl.flock(f, fcntl.LOCK_EX)
    return f


def coq_build(clean=False, timeout=3000):
    """Full .vo build of coq/ (never -vos). Returns (ok, log)."""
    lock = _lock()
    try:
        log = ""
        from . import translate_schemas
        err = translate_schemas.regenerate()          # Model/Schemas.v follows /repo's current source
        if err:
            log += "translate_schemas: " + err + "\n"
        from . import translate_units
        err = translate_units.regenerate()            # Model/UnitTable.v likewise
        if err:
            log += "translate_units: " + err + "\n"
        from . import translate_enums
        err = translate_enums.regenerate()            # Model/Enums.v likewise
        if err:
            log += "translate_enums: " + err + "\n"
        mk = COQ / "Makefile"
        if clean and mk.exists():
            subprocess.run(["make", "clean"], cwd=COQ, stdout=subprocess.DEVNULL, stderr=subprocess.DEVNULL)
        if (not mk.exists()) or mk.stat().st_mtime < (COQ / "_CoqProject").stat().st_mtime:
            r = subprocess.run(["coq_makefile", "-f", "_CoqProject", "-o", "Makefile"], cwd=COQ,
                               capture_output=True, text=True, timeout=120)
            log += r.stdout + r.stderr
            if r.returncode != 0:
                return False, log
        r = subprocess.run(["timeout", str(timeout), "make", "-j%d" % NPROC, "-k"], cwd=COQ,
                           capture_output=True, text=True)
        log += r.stdout + r.stderr
        return r.returncode == 0, log
    finally:
        lock.close()


def grep_forbidden():
    """Lines of the development that declare an axiom or switch a kernel check off."""
    hits = []
    for sub in ("Model", "Proofs", "Props"):
        for p in sorted((COQ / sub).glob("*.v")):
            txt = p.read_text()
            # strip comments (non-nested is enough for our files; nested handled by loop)
            prev = None
            while prev != txt:
                prev = txt
                txt = re.sub(r"\(\*[^()]*?\*\)", " ", txt, flags=re.S)
            txt = re.sub(r"\(\*.*?\*\)", " ", txt, flags=re.S)
            for i, line in enumerate(txt.splitlines(), 1):
                if FORBIDDEN.search(line):
                    hits.append("%s:%d: %s" % (p.relative_to(VERIF), i, line.strip()))
    return hits


def audit_props(pid):
    """Re-check Props/<pid>.v alone, collect theorem names and their Print Assumptions output.
    Returns dict(obligations, discharged, theorems=[(name, assumptions)], failed=[names], log)."""
    src = COQ / "Props" / (pid + ".v")
    text = src.read_text()
    names = re.findall(r"^(?:Theorem|Lemma|Example|Corollary)\s+([A-Za-z0-9_']+)", text, flags=re.M)
    printed = re.findall(r"^Print Assumptions\s+([A-Za-z0-9_']+)\s*\.", text, flags=re.M)
    out = {"obligations": len(names), "discharged": 0, "theorems": [], "failed": [], "log": "",
           "names": names}
    vo = COQ / "Props" / (pid + ".vo")
    (BUILD / "audit").mkdir(parents=True, exist_ok=True)
    r = subprocess.run(["timeout", "900", "coqc"] + COQ_FLAGS + ["-o", str(BUILD / "audit" / (pid + ".vo")), str(src)],
                       cwd=COQ, capture_output=True, text=True)
    out["log"] = (r.stdout + r.stderr)[-4000:]
    if r.returncode != 0 or not vo.exists():
        m = re.search(r"line (\d+)", r.stderr)
        failed_line = int(m.group(1)) if m else 0
        # the theorem whose proof script contains the failing line (or the file as a whole)
        failing = None
        for mm in re.finditer(r"^(?:Theorem|Lemma|Example|Corollary)\s+([A-Za-z0-9_']+)", text, flags=re.M):
            ln = text[:mm.start()].count("\n") + 1
            if ln <= failed_line:
                failing = mm.group(1)
        out["failed"] = [failing or (pid + ".v (dependency does not compile)")]
        return out
    blocks = re.split(r"(?m)^(?=Closed under the global context|Axioms:)", r.stdout)
    blocks = [b.strip() for b in blocks if b.strip().startswith(("Closed under", "Axioms:"))]
    ass = {}
    for name, blk in zip(printed, blocks):
        ass[name] = blk
    bad = []
    for n in names:
        a = ass.get(n, "(no Print Assumptions)" if n in printed else "Example/aux: checked by the kernel, assumptions not printed")
        out["theorems"].append((n, a))
        if a.startswith("Axioms:"):
            axs = re.findall(r"^([A-Za-z0-9_.']+)\s*:", a, flags=re.M)
            axs = [x for x in axs if x != "Axioms"]
            if any(x not in ALLOWED_AXIOMS for x in axs):
                bad.append(n)
    out["failed"] = bad
    out["discharged"] = len(names) - len(bad)
    return out


# ---------------------------------------------------------------------------------------------
# Gallina literal emission
# ---------------------------------------------------------------------------------------------

def g_float(x):
    """Exact value of a Python float (or int / Fraction) as a Qc term using Uint63 transport."""
    if isinstance(x, Fraction):
        p, q = x.numerator, x.denominator
        if abs(p) < 2**62 and q < 2**62:
            return "(%s %d%%uint63 %d%%uint63)" % ("qp" if p >= 0 else "qn", abs(p), q)
        raise ValueError("fraction too large for transport")
    if isinstance(x, int) or (hasattr(x, "is_integer") and float(x).is_integer() and abs(x) < 2**53):
        n = int(x)
        return "(%s %d%%uint63 0)" % ("flp" if n >= 0 else "fln", abs(n))
    x = float(x)
    if math.isnan(x) or math.isinf(x):
        raise ValueError("non-finite float in a case")
    m, e = math.frexp(x)
    m = int(m * (1 << 53))
    e -= 53
    while m and m % 2 == 0:
        m //= 2
        e += 1
    return "(%s %d%%uint63 (%d))" % ("flp" if m >= 0 else "fln", abs(m), e)


def g_z(n):
    n = int(n)
    if abs(n) < 2**20:
        return "(%d)" % n
    if abs(n) < 2**62:
        return "(%s %d%%uint63)" % ("zp" if n >= 0 else "zn", abs(n))
    # split into 60-bit limbs
    s, a, parts = (n < 0), abs(n), []
    while a:
        parts.append(a & ((1 << 60) - 1))
        a >>= 60
    t = "0"
    for p in reversed(parts):
        t = "(%s * 1152921504606846976 + zp %d%%uint63)" % (t, p)
    return "(- %s)" % t if s else t


def g_nat(n):
    return "%d%%nat" % int(n)


def g_list(items):
    return "[" + "; ".join(items) + "]"


def g_bool(b):
    return "true" if b else "false"


def g_opt(x):
    return "None" if x is None else "(Some %s)" % x


def g_codepoints(s):
    """A Python string as list N of code points."""
    return "[" + "; ".join("%d%%N" % ord(c) for c in s) + "]"


# ---------------------------------------------------------------------------------------------
# evaluating cases inside Coq
# ---------------------------------------------------------------------------------------------

MAX_SHARD_BYTES = 1500000


def _big_stack():
    import resource
    try:
        resource.setrlimit(resource.RLIMIT_STACK, (resource.RLIM_INFINITY, resource.RLIM_INFINITY))
    except (ValueError, OSError):
        pass


class CoqCaseError(Exception):
    pass


NOT_EVALUATED = 98      # branch number of a verdict that the assistant did not finish computing within the limit


def run_cases(pid, imports, terms, shard=250, timeout=None, tag="", _single=False):
    """terms: Gallina terms of type `verdict` (bool * nat). One coqc process per shard, all
    evaluated by vm_compute. Returns list of (ok, branch).
    A shard that runs out of time (an implementation gone wrong can hand the model an observation whose replay is enormous) is
    evaluated again term by term under a short limit; a term that still does not finish is a rejection with branch NOT_EVALUATED -
    reported like any other rejected case, never a crash of the check."""
    if timeout is None:
        timeout = 1800 if os.environ.get("VERIF_TIER") == "thorough" else 600
    CASES.mkdir(exist_ok=True)
    stamp = "%s%s_%d" % (pid, tag, os.getpid())
    files = []
    # a shard holds at most `shard` terms and at most MAX_SHARD_BYTES of text (a multi-megabyte literal overflows coqc's stack)
    chunks, cur, size = [], [], 0
    for t in terms:
        if cur and (len(cur) >= shard or size + len(t) > MAX_SHARD_BYTES):
            chunks.append(cur)
            cur, size = [], 0
        cur.append(t)
        size += len(t)
    if cur:
        chunks.append(cur)
    for k, chunk in enumerate(chunks):
        name = "cases_%s_%d" % (stamp, k)
        path = CASES / (name + ".v")
        with open(path, "w") as f:
            f.write("From Coq Require Import Uint63 ZArith QArith Qcanon List.\nImport ListNotations.\n")
            f.write("From Verif Require Import Num Decode %s.\n" % imports)
            f.write("Open Scope Z_scope.\n")
            for i, t in enumerate(chunk):
                f.write("Definition c%d : verdict := Eval vm_compute in (%s).\n" % (i, t))
            f.write("Definition all_cases : list verdict := [%s].\n" % "; ".join("c%d" % i for i in range(len(chunk))))
            f.write("Close Scope Z_scope.\nOpen Scope nat_scope.\n")
            f.write("Eval vm_compute in (List.map (fun v : verdict => (if fst v then 1%nat else 0%nat, snd v)) all_cases).\n")
        files.append((path, len(chunk)))
    procs = []
    results = []
    pending = list(files)
    running = []

    def finish(p, path, n):
        out, err = p.communicate()
        if p.returncode in (124, 137) and not _single:
            return None            # out of time: term by term below
        if p.returncode in (124, 137):
            return [(False, NOT_EVALUATED)] * n
        if p.returncode != 0:
            raise CoqCaseError("coqc failed on %s:\n%s" % (path, (out + err)[-3000:]))
        pairs = re.findall(r"\(\s*(\d+)(?:%nat)?\s*,\s*(\d+)(?:%nat)?\s*\)", out[out.rfind("= ["):] if "= [" in out else out)
        if len(pairs) != n:
            if n == 0:
                return []
            raise CoqCaseError("could not parse %d verdicts from %s (got %d):\n%s" % (n, path, len(pairs), out[-2000:]))
        return [(a == "1", int(b)) for a, b in pairs]

    res_by_file = {}
    while pending or running:
        while pending and len(running) < NPROC:
            path, n = pending.pop(0)
            p = subprocess.Popen(["timeout", str(timeout), "coqc"] + COQ_FLAGS + ["-Q", "Cases", "VerifCases", str(path)],
                                 cwd=COQ, stdout=subprocess.PIPE, stderr=subprocess.PIPE, text=True, preexec_fn=_big_stack)
            running.append((p, path, n))
        p, path, n = running.pop(0)
        res_by_file[path] = finish(p, path, n)
    for (path, n), chunk in zip(files, chunks):
        if res_by_file[path] is None:
            res_by_file[path] = run_cases(pid, imports, chunk, shard=1, timeout=int(os.environ.get("VERIF_TERM_TIMEOUT", "120")), tag=tag + "s%d" % files.index((path, n)), _single=True)
        results.extend(res_by_file[path])
    keep = os.environ.get("VERIF_KEEP_CASES")
    if not keep:
        for path, _ in files:
            for ext in (".v", ".vo", ".glob", ".vok", ".vos"):
                q = path.with_suffix(ext)
                if q.exists():
                    q.unlink()
            aux = path.parent / ("." + path.stem + ".aux")
            if aux.exists():
                aux.unlink()
    return results


# ---------------------------------------------------------------------------------------------
# known findings, replays, evidence
# ---------------------------------------------------------------------------------------------

def load_known():
    p = VERIF / "known_findings.json"
    if p.exists():
        return json.loads(p.read_text())
    return {"known": [], "fixed": []}


def write_replay(pid, payload):
    d = VERIF / "replays"
    d.mkdir(exist_ok=True)
    blob = json.dumps(payload, sort_keys=True, default=str)
    h = hashlib.sha1(blob.encode()).hexdigest()[:12]
    path = d / ("%s-%s.json" % (pid, h))
    payload = dict(payload)
    payload["replay_cmd"] = "./check %s --replay %s" % (pid, path)
    path.write_text(json.dumps(payload, indent=1, sort_keys=True, default=str))
    return path


class Run:
    """State of one check run; collects counters and produces evidence + exit code."""

    def __init__(self, pid, tier, seed):
        self.pid, self.tier, self.seed = pid, tier, seed
        self.t0 = time.time()
        self.evaluations = 0
        self.nontrivial = set()
        self.samples = []
        self.distribution = {}
        self.violations = []      # (replay path, concrete?)
        self.known_hits = []
        self.audit = None
        self.notes = []
        self.exhaustive = None
        self.rule = ""
        self.assumptions = []
        self.extra = {}

    def count(self, key, n=1):
        self.distribution[key] = self.distribution.get(key, 0) + n

    def violation(self, payload, concrete=True):
        payload = dict(payload)
        payload.setdefault("property", self.pid)
        payload["kind"] = "concrete" if concrete else "no-failing-input-found"
        payload["seed"] = self.seed
        payload["tier"] = self.tier
        path = write_replay(self.pid, payload)
        self.violations.append((str(path), concrete))
        print("VIOLATION property=%s replay=%s%s" % (self.pid, path, "" if concrete else " no-failing-input-found"), flush=True)

    def known(self, fid, what):
        if (fid, what) not in self.known_hits:
            self.known_hits.append((fid, what))
            print("KNOWN-FINDING: property=%s %s (%s)" % (self.pid, what, fid), flush=True)

    def finish(self):
        a = self.audit or {"obligations": 0, "discharged": 0, "theorems": [], "failed": []}
        tb = [
            "Coq 8.16.1 kernel + bytecode VM (vm_compute); no native_compute",
            "hand-written Gallina model tied to /repo by differential execution (harness/%s.py), verdict computed in Coq" % self.pid.lower(),
            "harness (Python): generators, drivers, literal emission, result parsing",
        ]
        for n, ass in a["theorems"]:
            tb.append("%s: %s" % (n, " ".join(ass.split())[:400]))
        cov = {
            "obligations": a["obligations"],
            "discharged": a["discharged"],
            "checker_cmd": "make -C /verif/coq (full .vo build) && coqc Props/%s.v (Print Assumptions)" % self.pid,
            "trusted_base": tb,
            "evaluations": self.evaluations,
            "distinct_nontrivial": len(self.nontrivial),
            "rule": self.rule,
            "samples": self.samples[:6],
            "input_distribution": self.distribution,
            "known_findings_hit": [f for f, _ in self.known_hits],
        }
        if self.exhaustive is not None:
            cov["exhaustive"] = self.exhaustive
        cov.update(self.extra)
        ev = {
            "property_id": self.pid, "tier": self.tier, "seed": self.seed, "level": "proof",
            "coverage": cov,
            "assumptions": self.assumptions + self.notes,
            "wall_s": round(time.time() - self.t0, 2),
            "violations": len(self.violations),
        }
        (VERIF / "evidence").mkdir(exist_ok=True)
        (VERIF / "evidence" / (self.pid + ".json")).write_text(json.dumps(ev, indent=1, default=str))
        print("%s %s: %d evaluations, %d distinct non-trivial, proofs %d/%d, %d violations, %d known findings, %.1fs" % (
            self.pid, self.tier, self.evaluations, len(self.nontrivial), a["discharged"], a["obligations"],
            len(self.violations), len(self.known_hits), time.time() - self.t0), flush=True)
        return 1 if self.violations else 0


def canon_key(obj):
    return hashlib.sha1(json.dumps(obj, sort_keys=True, default=str).encode()).hexdigest()


def decide(run, items, imports, accept, oracle, known=None, max_reports=5, shard=250):
    """items: dicts with keys case (json-able), obs (json-able), gcase, gobs (Gallina terms),
    optional nontrivial (bool, default True).  `accept gcase gobs` is evaluated in Coq.
    oracle(item) -> (holds: bool|None, name): the property stated model-independently, evaluated on
    the implementation's output; None = cannot decide.  known(item) -> (id, what) | None."""
    run.evaluations += len(items)
    terms = ["%s %s %s" % (accept, it["gcase"], it["gobs"]) for it in items]
    res = run_cases(run.pid, imports, terms, shard=shard)
    reports = 0
    pending = []
    for it, (ok, tag) in zip(items, res):
        run.count("branch_%d" % tag)
        if it.get("nontrivial", True) and tag != 0:
            run.nontrivial.add(canon_key(it["case"]))
        if len(run.samples) < 6 and (not run.samples or tag not in [s.get("branch") for s in run.samples]):
            run.samples.append({"case": it["case"], "observed": it["obs"], "branch": tag, "accepted": ok})
        if ok:
            continue
        it["tag"] = tag
        k = known(it) if known else None
        if k:
            run.known(*k)
            continue
        holds, name = oracle(it)
        pending.append((it, tag, holds, name))
    # the replays written are limited to max_reports: cases on which the property itself is seen to fail come first
    pending.sort(key=lambda p: p[2] is not False)
    for it, tag, holds, name in pending:
        if reports < max_reports:
            reports += 1
            run.violation({"correspondence": accept, "case": it["case"], "observed": it["obs"],
                           "model_verdict": ("rejected (branch %d)" % tag) if tag != NOT_EVALUATED else
                                            "the model's verdict on this observation was not computed within the limit (counted as a rejection)",
                           "property_oracle": {"name": name, "holds": holds}},
                          concrete=(holds is False))
        else:
            run.violations.append(("(not written: report cap)", holds is False))
    return res
