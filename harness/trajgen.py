"""Random simulation scripts and their execution with the freshly compiled engines (in process;
anything that may hang or crash the process is run through harness/child.py instead)."""
from fractions import Fraction as Fr

from . import sysgen, engine_build, si

ENGINES = ["euler", "tauleap", "gillespie"]


def make_sim_case(rng, kind=None, space_kind=None, max_cells=6, chem=True, reactions=True, max_steps=200):
    """rate constants in exotic unit systems can be astronomically large or small (a zeroth-order source of 1e40 molecules per
    step makes libstdc++'s Poisson sampler spin): such systems are regenerated, the properties are not about them"""
    kind = kind or rng.choice(ENGINES)
    while True:
        c = _make_sim_case(rng, kind, space_kind, max_cells, chem, reactions, max_steps)
        if abs(c.pop("tune_exponent", 0)) <= 40:
            return c


def _make_sim_case(rng, kind, space_kind, max_cells, chem, reactions, max_steps):
    desc = sysgen.rand_desc(rng, max_species=3, max_cells=max_cells, reactions=reactions, space_kind=space_kind, cubic=True)
    n, ns = sysgen.ncells(desc), len(desc["species"])
    # integer molecule counts (stochastic engines need them; 'none' processing is used)
    state = [float(rng.choice([0, 0, 1, 2, 3, 5, 8, 13, 20])) for _ in range(n * ns)]
    # per species: no flag at all (so that its conservation laws stay usable), or a random subset of the cells
    chs = []
    for _s in range(ns):
        if not chem or rng.random() < 0.5:
            chs += [False] * n
        else:
            chs += [rng.random() < 0.4 for _ in range(n)]
    us = sysgen.rand_sys(rng)
    dt = 2.0 ** -rng.randint(3, 8)
    steps = rng.randint(3, max_steps)
    nsamp = rng.randint(2, 12)
    ts = sorted(set(round(rng.uniform(0, steps * dt) / dt) * dt for _ in range(nsamp)))
    c = {"desc": desc, "state": state, "state_units": ["µm", "s", "molecule"], "chs": chs, "units": us, "engine": kind,
            "dt": dt, "t_sample": ts, "t_max": steps * dt, "policy": rng.choice(["on_t_sample", "on_t_sample", "on_iteration", "on_interval"]),
            "interval": dt * rng.randint(1, 8), "seed": rng.randrange(2 ** 31), "init": "none"}
    c["tune_exponent"] = tune_time_step(c)
    return c


def add_multi_edges(rng, desc):
    """graphs as the engines must take them (and as grid_to_graph makes them for periodic axes of length 1 and 2): self-loops and
    parallel edges.  Only for checks that drive the engines alone - the Python kinetics functions see one edge per pair of nodes."""
    sp = desc["space"]
    if sp["type"] != "graph":
        return desc
    import copy
    n = len(sp["nodes"])
    if rng.random() < 0.5:
        for _ in range(rng.randint(1, 2)):
            i = rng.randrange(n)
            tmpl = copy.deepcopy(sp["edges"][0]) if sp["edges"] else {"surface": {"bare": 1.0}, "distance": {"bare": 1.0}, "units": list(sp["units"])}
            tmpl.update({"i": i, "j": i})
            sp["edges"].insert(rng.randrange(len(sp["edges"]) + 1), tmpl)
    if sp["edges"] and rng.random() < 0.4:
        e = copy.deepcopy(rng.choice(sp["edges"]))
        if rng.random() < 0.5:
            e["i"], e["j"] = e["j"], e["i"]
        sp["edges"].append(e)
    return desc


def _si(q, owner, dim):
    v, sy, d = sysgen.qty_resolved(q, owner, dim)
    return Fr(v) * si.si_scale(sy, d)


def _env_si(ev, env, owner, dim):
    if "scalar" in ev:
        return _si(ev["scalar"], owner, dim)
    d = dict((k, q) for k, q in ev["dict"])
    q = d.get(env, d.get("default"))
    return _si(q, owner, dim) if q is not None else Fr(0)


def max_rate(desc, molecules=10):
    """largest first-order rate constant (1/s, SI) of any diffusion hop or (pseudo first order, with
    `molecules` per cell) reaction channel; used only to choose a time step at which something happens
    without the leap overshooting"""
    sp = desc["space"]
    envs = desc["envs"]
    if sp["type"] == "grid":
        n = sysgen.ncells(desc)
        h = [_si(sp["edge"], sp["units"], sysgen.DIMS["distance"])] * n
        cenv = list(sp["env"])
    else:
        h = [_si(nd["edge"], nd["units"], sysgen.DIMS["distance"]) for nd in sp["nodes"]]
        cenv = [nd["env"] for nd in sp["nodes"]]
    best = Fr(0)
    na = si.NA
    for s in desc["species"]:
        Ds = [_env_si(s["D"], envs[e], s["units"], sysgen.DIMS["D"]) for e in cenv]
        if sp["type"] == "grid":
            for i in range(len(h)):
                best = max(best, 6 * Ds[i] / (h[i] * h[i]))
        else:
            out = [Fr(0)] * len(h)
            for e in sp["edges"]:
                i, j = e["i"], e["j"]
                if Ds[i] == 0 or Ds[j] == 0:
                    continue
                dint = (h[i] + h[j]) / (h[i] / Ds[i] + h[j] / Ds[j])
                sf = _si(e["surface"], e["units"], sysgen.DIMS["surface"])
                ds = _si(e["distance"], e["units"], sysgen.DIMS["distance"])
                out[i] += dint * sf / (ds * h[i] ** 3)
                out[j] += dint * sf / (ds * h[j] ** 3)
            best = max([best] + out)
    for r in desc["reactions"]:
        for key, side in (("kf", "sub"), ("kr", "prod")):
            order = sum(r[side].values())
            for i in range(len(h)):
                k = _env_si(r[key], envs[cenv[i]], r["units"], sysgen.kdim(order))
                vol = h[i] ** 3
                # molecules/s per cell at `molecules` per species (si.py's SI amount unit is the molecule): k * V * (n / V)^order
                rate = k * vol * (Fr(molecules) / vol) ** order
                best = max(best, rate / max(1, molecules) * max(1, order))
    return best


def tune_time_step(c, target=0.1):
    """dyadic time step (in the script's time unit) such that the fastest channel fires with probability ~target per step"""
    m = max_rate(c["desc"])
    if m <= 0:
        return 0
    import math
    dt_si = Fr(target) / m
    dt_script = dt_si / si.SI_TIME[c["units"][1]]
    e = math.floor(math.log2(float(dt_script))) if dt_script > 0 else -8
    raw = e
    e = max(-60, min(60, e))
    old = c["dt"]
    c["dt"] = 2.0 ** e
    k = c["dt"] / old
    c["t_sample"] = [t * k for t in c["t_sample"]]
    c["t_max"] *= k
    c["interval"] *= k
    return raw


def engine_units(c):
    u = list(c["units"])
    if c["engine"] != "euler":
        u[2] = "molecule"
    return u


def build_script(strengths, c, sanitize=False):
    U = strengths.units
    state = U.UnitArray(list(c["state"]), U.Units(sysgen.py_sys(U, c["state_units"]), U.UnitsDimensions(quantity=1)))
    kw = {} if c.get("chs_from_species") else {"chemostats": [int(b) for b in c["chs"]]}     # else: the species' own flags decide
    system = sysgen.build_system(strengths, c["desc"], state=state, **kw)
    us = sysgen.py_sys(U, c["units"])
    return strengths.RDScript(system=system, t_sample=list(c["t_sample"]), time_step=c["dt"], t_max=c["t_max"],
                              sampling_policy=c["policy"], sampling_interval=c["interval"], rng_seed=c["seed"],
                              init_state_processing=c["init"], units_system=us)


def run(c, max_iter=20000):
    """samples (species-major lists of floats, in script units), times, iterations performed"""
    import strengths
    script = build_script(strengths, c)
    eng = engine_build.engine(c["engine"])
    eng.setup(script)
    it = 0
    while it < max_iter:
        it += 1
        if not eng.iterate():
            break
    out = eng.get_output()
    eng.finalize()
    size = len(c["state"])
    data = [float(v) for v in out.data.value]
    return {"samples": [data[k * size:(k + 1) * size] for k in range(len(data) // size)],
            "t": [float(v) for v in out.t.value], "iterations": it, "data_units": si.sys_of(out.data.units.sys)}


# ------------------------------------------------------------------------------ conservation laws
def null_space(desc):
    """integer basis of the left null space of the stoichiometric matrix (species x split reactions)"""
    labels = [s["label"] for s in desc["species"]]
    ns = len(labels)
    cols = []
    for r in desc["reactions"]:
        cols.append([Fr(r["prod"].get(l, 0) - r["sub"].get(l, 0)) for l in labels])
    # solve c . col = 0 for all cols : rows = cols (as equations over c)
    m = [row[:] for row in cols]
    piv = []
    rnk = 0
    for col in range(ns):
        p = next((i for i in range(rnk, len(m)) if m[i][col] != 0), None)
        if p is None:
            continue
        m[rnk], m[p] = m[p], m[rnk]
        pv = m[rnk][col]
        m[rnk] = [v / pv for v in m[rnk]]
        for i in range(len(m)):
            if i != rnk and m[i][col] != 0:
                f = m[i][col]
                m[i] = [a - f * b for a, b in zip(m[i], m[rnk])]
        piv.append(col)
        rnk += 1
    free = [c for c in range(ns) if c not in piv]
    basis = []
    for f in free:
        v = [Fr(0)] * ns
        v[f] = Fr(1)
        for i, pc in enumerate(piv):
            v[pc] = -m[i][f]
        den = 1
        for a in v:
            den = den * a.denominator // __import__("math").gcd(den, a.denominator)
        basis.append([int(a * den) for a in v])
    return basis
