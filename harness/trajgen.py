"""Random simulation scripts and their execution with the freshly compiled engines (in process;
anything that may hang or crash the process is run through harness/child.py instead)."""
from fractions import Fraction as Fr

from . import sysgen, engine_build, si

ENGINES = ["euler", "tauleap", "gillespie"]


def make_sim_case(rng, kind=None, space_kind=None, max_cells=6, chem=True, reactions=True, max_steps=200):
    kind = kind or rng.choice(ENGINES)
    desc = sysgen.rand_desc(rng, max_species=3, max_cells=max_cells, reactions=reactions, space_kind=space_kind, cubic=True)
    n, ns = sysgen.ncells(desc), len(desc["species"])
    # integer molecule counts (stochastic engines need them; 'none' processing is used)
    state = [float(rng.choice([0, 0, 1, 2, 3, 5, 8, 13, 20])) for _ in range(n * ns)]
    chs = [bool(chem and rng.random() < 0.2) for _ in range(n * ns)]
    us = sysgen.rand_sys(rng)
    dt = 2.0 ** -rng.randint(3, 8)
    steps = rng.randint(3, max_steps)
    nsamp = rng.randint(2, 12)
    ts = sorted(set(round(rng.uniform(0, steps * dt) / dt) * dt for _ in range(nsamp)))
    return {"desc": desc, "state": state, "state_units": ["µm", "s", "molecule"], "chs": chs, "units": us, "engine": kind,
            "dt": dt, "t_sample": ts, "t_max": steps * dt, "policy": rng.choice(["on_t_sample", "on_t_sample", "on_iteration", "on_interval"]),
            "interval": dt * rng.randint(1, 8), "seed": rng.randrange(2 ** 31), "init": "none"}


def engine_units(c):
    u = list(c["units"])
    if c["engine"] != "euler":
        u[2] = "molecule"
    return u


def build_script(strengths, c, sanitize=False):
    U = strengths.units
    state = U.UnitArray(list(c["state"]), U.Units(sysgen.py_sys(U, c["state_units"]), U.UnitsDimensions(quantity=1)))
    system = sysgen.build_system(strengths, c["desc"], state=state, chemostats=[int(b) for b in c["chs"]])
    us = sysgen.py_sys(U, c["units"])
    return strengths.RDScript(system=system, t_sample=list(c["t_sample"]), time_step=c["dt"], t_max=c["t_max"],
                              sampling_policy=c["policy"], sampling_interval=c["interval"], rng_seed=c["seed"],
                              init_state_processing=c["init"], units_system=us)


def run(c, max_iter=200000):
    """samples (species-major lists of floats, in script units), times, iterations performed"""
    import strengths
    script = build_script(strengths, c)
    eng = engine_build.engine(c["engine"])
    eng.setup(script)
    it = 0
    while it < max_iter:
        it += 1
        if not eng.iterate():
            break
    out = eng.get_output()
    eng.finalize()
    size = len(c["state"])
    data = [float(v) for v in out.data.value]
    return {"samples": [data[k * size:(k + 1) * size] for k in range(len(data) // size)],
            "t": [float(v) for v in out.t.value], "iterations": it, "data_units": si.sys_of(out.data.units.sys)}


# ------------------------------------------------------------------------------ conservation laws
def null_space(desc):
    """integer basis of the left null space of the stoichiometric matrix (species x split reactions)"""
    labels = [s["label"] for s in desc["species"]]
    ns = len(labels)
    cols = []
    for r in desc["reactions"]:
        cols.append([Fr(r["prod"].get(l, 0) - r["sub"].get(l, 0)) for l in labels])
    # solve c . col = 0 for all cols : rows = cols (as equations over c)
    m = [row[:] for row in cols]
    piv = []
    rnk = 0
    for col in range(ns):
        p = next((i for i in range(rnk, len(m)) if m[i][col] != 0), None)
        if p is None:
            continue
        m[rnk], m[p] = m[p], m[rnk]
        pv = m[rnk][col]
        m[rnk] = [v / pv for v in m[rnk]]
        for i in range(len(m)):
            if i != rnk and m[i][col] != 0:
                f = m[i][col]
                m[i] = [a - f * b for a, b in zip(m[i], m[rnk])]
        piv.append(col)
        rnk += 1
    free = [c for c in range(ns) if c not in piv]
    basis = []
    for f in free:
        v = [Fr(0)] * ns
        v[f] = Fr(1)
        for i, pc in enumerate(piv):
            v[pc] = -m[i][f]
        den = 1
        for a in v:
            den = den * a.denominator // __import__("math").gcd(den, a.denominator)
        basis.append([int(a * den) for a in v])
    return basis
