"""File names and text arrays (part of C12): filepath.py, text_array_rw.py and the two files save_rdtrajectory writes, against
Model/Files.v.  Three kinds of item: (paths) every function of filepath.py on random path strings - slashes in runs, '.', '..',
extensions, blanks, non-ASCII, empty - with and without a base directory; (textarray) load_1D_array_txt(_, int) on random texts
and save_1D_array_txt on random integer lists; (trajfiles) save_rdtrajectory(separate_data=True) under random relative names in
a scratch directory: which files appear, what the JSON file says about the data file, and whether load_rdtrajectory finds it."""
import json
import os
import random
import shutil

from . import core, child
from .core import g_bool, g_list, g_opt, g_z, g_codepoints as g_str

PATH_TOKENS = ["/", "/", "/", ".", "..", "a", "b", "dir", "é", " ", ".json", ".json", "json", "_data.npy", ".npy", "x.y", "-", "n"]
EXTS = [".json", ".json", ".npy", "", "n", "json", ".", "/", "a.json", "xx.json.json"]


def rand_path(rng, maxlen=7):
    return "".join(rng.choice(PATH_TOKENS) for _ in range(rng.randint(0, maxlen)))


def make_path_case(rng):
    p = rand_path(rng)
    r = rng.random()
    ext = rng.choice(EXTS) if r < 0.8 else rand_path(rng, 3)
    if rng.random() < 0.25:
        p = p + ext                                     # so that 'has the extension' is not rare
    if rng.random() < 0.1:
        ext = p[rng.randrange(len(p) + 1):]             # a true suffix
    if rng.random() < 0.05:
        ext = "q" + p                                   # longer than the path: the slice start is negative
    base = None if rng.random() < 0.25 else rand_path(rng, 5)
    return {"kind": "paths", "p": p, "ext": ext, "base": base}


def observe_paths(c):
    import strengths.filepath as fp
    scratch = os.path.join(str(core.BUILD), "files_%d" % os.getpid(), "w d")
    os.makedirs(scratch, exist_ok=True)
    os.chdir(scratch)
    try:
        p, e = c["p"], c["ext"]
        o = {"cwd": os.getcwd()}
        for name, f in (("have", lambda: bool(fp.have_extension(p, e))), ("append", lambda: fp.append_extension_if_missing(p, e)),
                        ("remove", lambda: fp.remove_extension_if_existing(p, e)), ("last", lambda: fp.get_last_element(p)),
                        ("with_none", lambda: fp.get_path_with_base(p, None)), ("with_base", lambda: fp.get_path_with_base(p, c["base"])),
                        ("base", lambda: fp.get_base_path(p))):
            try:
                o[name] = f()
            except Exception as ex:
                o[name] = {"raised": type(ex).__name__}
        return o
    finally:
        os.chdir("/")
        shutil.rmtree(os.path.dirname(scratch), ignore_errors=True)


def emit_paths(c, o):
    gc = "(%s, %s, %s, %s)" % (g_str(c["p"]), g_str(c["ext"]), g_opt(None if c["base"] is None else g_str(c["base"])), g_str(o.get("cwd", "/")))

    def s(k):
        v = o.get(k)
        return g_opt(g_str(v) if isinstance(v, str) else None)
    have = o.get("have")
    go = "(%s, %s, %s, %s, %s, %s, %s)" % (g_opt(g_bool(have) if isinstance(have, bool) else None), s("append"), s("remove"), s("last"),
                                            s("with_none"), s("with_base"), s("base"))
    return gc, go


TEXT_TOKENS = ["0", "1", "2", "7", "10", "007", "-", "+", "_", ",", ",", " ", " ", "\n", "\t", " ", "\x1c", "x", "1.5", "-3", "+4", "1_000", "e", "12345678901234567890123"]


def make_text_case(rng):
    if rng.random() < 0.5:
        # mostly valid: integers separated by commas / blanks
        n = rng.randint(0, 8)
        toks = []
        for _ in range(n):
            toks.append(rng.choice(["0", "1", "1", "0", "42", "-3", "+4", "1_000", "007", "12345678901234567890123"]))
            toks.append(rng.choice([" ", ",", ", ", "\n", " , ", "\t", ",,", " "]))
        if toks and rng.random() < 0.3:
            toks.pop()
        if rng.random() < 0.15:
            toks.insert(rng.randrange(len(toks) + 1), rng.choice(["x", "1.5", "-", "_1", "1_", "1__0", "+-1", "True"]))
        text = "".join(toks)
    else:
        text = "".join(rng.choice(TEXT_TOKENS) for _ in range(rng.randint(0, 10)))
    ints = [rng.choice([0, 1, 1, 0, -1, 7, 250, -12, 10 ** 25, -(10 ** 19)]) for _ in range(rng.randint(0, 7))]
    return {"kind": "textarray", "text": text, "ints": ints}


def observe_text(c):
    import strengths.text_array_rw as ta
    scratch = os.path.join(str(core.BUILD), "files_%d" % os.getpid())
    os.makedirs(scratch, exist_ok=True)
    try:
        f = os.path.join(scratch, "in.txt")
        open(f, "w", encoding="utf-8", newline="").write(c["text"])
        try:
            loaded = [int(v) for v in ta.load_1D_array_txt(f, int)]
        except ValueError:
            loaded = None
        g = os.path.join(scratch, "out.txt")
        ta.save_1D_array_txt(list(c["ints"]), g)
        import gc
        gc.collect()                                    # save_1D_array_txt leaves the file to the collector
        saved = open(g, encoding="utf-8", newline="").read()
        try:
            back = [int(v) for v in ta.load_1D_array_txt(g, int)]
        except ValueError:
            back = None
        return {"loaded": loaded, "saved": saved, "back": back}
    finally:
        shutil.rmtree(scratch, ignore_errors=True)


def emit_text(c, o):
    def zl(v):
        return g_opt(None if v is None else g_list([g_z(x) for x in v]))
    gc = "(%s, %s)" % (g_str(c["text"]), g_list([g_z(x) for x in c["ints"]]))
    if "saved" not in o:
        return gc, "None"
    return gc, "(Some (%s, %s, %s))" % (zl(o["loaded"]), g_str(o["saved"]), zl(o["back"]))


NAME_TOKENS = ["a", "b", "run", ".json", ".json", "json", "_data", ".npy", "x.y", " ", "é", "-", "."]
DIR_TOKENS = ["", "", "d/", "d//", "./", "d/e/", "d/./", ".//", "d/../d/", "é é/"]


def make_traj_case(rng, traj_case):
    name = "".join(rng.choice(NAME_TOKENS) for _ in range(rng.randint(0, 4)))
    p = rng.choice(DIR_TOKENS) + name
    if rng.random() < 0.1:
        p = rng.choice(["d/", "", ".json", "d/.json", "..json", "a.json.json", "zz.json/b"])
    return {"kind": "trajfiles", "p": p, "absolute": rng.random() < 0.3, "traj": traj_case}


def observe_traj(c):
    import strengths
    import strengths.rdoutput as ro
    from . import c12
    U = strengths.units
    root = os.path.join(str(core.BUILD), "files_%d" % os.getpid())
    scratch = os.path.join(root, "w")
    shutil.rmtree(root, ignore_errors=True)
    os.makedirs(scratch)
    os.chdir(scratch)
    try:
        tr = c12.py_trajectory(strengths, U, ro, c["traj"])
        p = c["p"]
        # the directories the name mentions exist (saving creates files, not directories)
        for d in ("d/e", "é é", "zz.json"):        # (no generated file name is one of these)
            os.makedirs(os.path.join(scratch, d), exist_ok=True)
        before = set(_files(scratch))
        arg = os.path.join(scratch, p) if c["absolute"] else p
        try:
            ro.save_rdtrajectory(tr, arg, separate_data=True)
        except Exception as ex:
            return {"cwd": scratch, "save_raised": type(ex).__name__ + ": " + str(ex)[:80]}
        import gc
        gc.collect()
        new = sorted(set(_files(scratch)) - before)
        o = {"cwd": scratch, "new_files": new}
        jfiles = [f for f in new if not f.endswith(".npy")]
        if len(jfiles) == 1:
            d = json.load(open(os.path.join(scratch, jfiles[0]), encoding="utf-8"))
            o["reference"] = d["data"]["value"] if isinstance(d.get("data"), dict) else None
            os.chdir(root)                              # loading from elsewhere: the reference is relative to the JSON file
            try:
                back = ro.load_rdtrajectory(os.path.join("w", jfiles[0]))
                o["loaded_same"] = bool([float(v) for v in back.data.value] == [float(v) for v in tr.data.value])
            except Exception as ex:
                o["load_raised"] = type(ex).__name__ + ": " + str(ex)[:80]
        return o
    finally:
        os.chdir("/")
        shutil.rmtree(root, ignore_errors=True)


def _files(top):
    out = []
    for d, _, fs in os.walk(top):
        for f in fs:
            out.append(os.path.relpath(os.path.join(d, f), top))
    return out


def emit_traj(c, o):
    cwd = o.get("cwd", "/")
    arg = os.path.join(cwd, c["p"]) if c["absolute"] else c["p"]
    gc = "(%s, %s)" % (g_str(cwd), g_str(arg))
    if "new_files" not in o:
        return gc, "None"
    # the observed names, made absolute the way the operating system resolves them from the working directory
    files = g_list([g_str(os.path.join(cwd, f)) for f in o["new_files"]])
    ref = o.get("reference")
    return gc, "(Some (%s, %s, %s))" % (files, g_opt(g_str(ref) if isinstance(ref, str) else None), g_bool(o.get("loaded_same", False)))


def oracle(it):
    c, o = it["case"], it["obs"]
    if c["kind"] == "trajfiles":
        name = "a trajectory saved with its data apart is found again by load_rdtrajectory: the JSON file names the data file that was written, relative to itself"
        if "save_raised" in o:
            return False, name + " [save raised %s]" % o["save_raised"]
        if "load_raised" in o:
            return False, name + " [files %s, reference %r: load raised %s]" % (o.get("new_files"), o.get("reference"), o["load_raised"])
        if not o.get("loaded_same"):
            return False, name + " [files %s, reference %r: other data loaded]" % (o.get("new_files"), o.get("reference"))
        return True, name
    if c["kind"] == "textarray":
        name = "a saved integer array loads as the same integers"
        return o.get("back") == list(c["ints"]), name
    # paths: a file reference resolved against a base stays what the model of the path functions says (no independent oracle)
    return True, "path helpers behave as their model (filepath.py)"


def _items(cases, func, emit, timeout=30):
    obs = child.map_children("files", func, cases, timeout=timeout)
    items = []
    for c, o in zip(cases, obs):
        if "timeout" in o or "crash" in o:
            o = {"error": "timeout or crash"}
        gc, go = emit(c, o)
        items.append({"case": c, "obs": o, "gcase": gc, "gobs": go, "nontrivial": "error" not in o})
    return items


def path_items(cases):
    return _items(cases, "observe_paths", emit_paths)


def text_items(cases):
    return _items(cases, "observe_text", emit_text)


def traj_items(cases):
    return _items(cases, "observe_traj", emit_traj, timeout=60)
