"""Translator (fail-closed): the string enumerations that three layers of /repo must agree on, re-read from the *current* source on
every run and written as Model/Enums.v.

Python (ast): the membership tests of RDScript.sampling_policy / init_state_processing (rdscript.py), of
RDGridSpace.set_boundary_conditions (axes and conditions, rdgridspace.py), of RDTrajectory.get_sample_index (rdoutput.py), and the
engine constructors of engine_collection.py (option string, requires_molecules).
C++ (text, comments removed): in both initialisers of engine.cpp the `CompareStr(x, "literal")` dispatch of the sampling policy
(string -> code), of the boundary conditions (string -> 0 / 1 per axis), of the engine option (string -> algorithm class,
`is_stochastic`), and of init_state_processing (per branch: which strings select it, under which stochasticity guard, what the branch
does to the amounts and whether it transposes them to cell-major order); in both algorithm base classes the `switch` of
SamplingStep (code -> sampler).

The obligations over these tables are in Proofs/EnumFacts.v."""
import ast
import os
import re
from pathlib import Path

REPO = Path(os.environ.get("VERIF_REPO", "/repo"))
OUT = Path(__file__).resolve().parent.parent / "coq" / "Model" / "Enums.v"


class TranslateError(Exception):
    pass


# ------------------------------------------------------------------ Python side
def _str_list(node, where):
    if not (isinstance(node, ast.List) and node.elts and all(isinstance(e, ast.Constant) and isinstance(e.value, str) for e in node.elts)):
        raise TranslateError("%s: the accepted values are not a list of string literals" % where)
    return [e.value for e in node.elts]


def _membership_tests(fn):
    """[(text of the tested expression, accepted values)] for every `x not in [...]` / `not x in [...]` of the function"""
    out = []
    for n in ast.walk(fn):
        if isinstance(n, ast.Compare) and len(n.ops) == 1 and isinstance(n.ops[0], (ast.NotIn, ast.In)) and isinstance(n.comparators[0], ast.List):
            out.append((ast.unparse(n.left), _str_list(n.comparators[0], fn.name)))
    return out


def _function(tree, cls, name, setter=False):
    found = []
    for c in tree.body:
        if isinstance(c, ast.ClassDef) and c.name == cls:
            for f in c.body:
                if isinstance(f, ast.FunctionDef) and f.name == name:
                    is_setter = any(isinstance(d, ast.Attribute) and d.attr == "setter" for d in f.decorator_list)
                    if is_setter == setter:
                        found.append(f)
    if len(found) != 1:
        raise TranslateError("%s.%s: not found exactly once" % (cls, name))
    return found[0]


def _one(tests, expr, where):
    hits = [vals for e, vals in tests if e == expr]
    if len(hits) != 1:
        raise TranslateError("%s: expected exactly one membership test of `%s`, found %d" % (where, expr, len(hits)))
    return hits[0]


def _python(root):
    out = {}
    t = ast.parse((root / "rdscript.py").read_text(encoding="utf-8"))
    out["script_policies"] = _one(_membership_tests(_function(t, "RDScript", "sampling_policy", True)), "sampling_policy", "RDScript.sampling_policy")
    out["script_modes"] = _one(_membership_tests(_function(t, "RDScript", "init_state_processing", True)), "init_state_processing", "RDScript.init_state_processing")
    t = ast.parse((root / "rdgridspace.py").read_text(encoding="utf-8"))
    tests = _membership_tests(_function(t, "RDGridSpace", "set_boundary_conditions"))
    out["grid_axes"] = _one(tests, "axis", "RDGridSpace.set_boundary_conditions")
    out["grid_conditions"] = _one(tests, "boundary_conditions[axis]", "RDGridSpace.set_boundary_conditions")
    t = ast.parse((root / "rdoutput.py").read_text(encoding="utf-8"))
    out["lookup_policies"] = _one(_membership_tests(_function(t, "RDTrajectory", "get_sample_index")), "policy", "RDTrajectory.get_sample_index")
    # engine constructors: every module-level function that returns LibRDEngine(..., option="x", requires_molecules=b)
    t = ast.parse((root / "engine_collection.py").read_text(encoding="utf-8"))
    engines = []
    for f in t.body:
        if isinstance(f, ast.FunctionDef):
            for n in ast.walk(f):
                if isinstance(n, ast.Call) and isinstance(n.func, ast.Name) and n.func.id == "LibRDEngine":
                    kw = {k.arg: k.value for k in n.keywords}
                    o, r = kw.get("option"), kw.get("requires_molecules")
                    if not (isinstance(o, ast.Constant) and isinstance(o.value, str) and isinstance(r, ast.Constant) and isinstance(r.value, bool)):
                        raise TranslateError("engine_collection.%s: option / requires_molecules are not literals" % f.name)
                    engines.append((o.value, r.value))
    if not engines:
        raise TranslateError("engine_collection.py: no LibRDEngine constructor found")
    out["engines"] = engines
    return out


# ------------------------------------------------------------------ C++ side
def _strip_comments(text):
    text = re.sub(r"/\*.*?\*/", " ", text, flags=re.S)
    return "\n".join(re.sub(r"//.*$", "", l) for l in text.replace("\r", "").split("\n"))


def _function_text(text, name):
    m = list(re.finditer(r'extern\s+"C"\s+\w+\s+%s\s*\(' % re.escape(name), text))
    if len(m) != 1:
        raise TranslateError("engine.cpp: %s not found exactly once" % name)
    nxt = re.search(r'extern\s+"C"', text[m[0].end():])
    return text[m[0].start(): m[0].end() + (nxt.start() if nxt else len(text))]


CMP = r'CompareStr\(\s*(\w+)\s*,\s*"([^"]*)"\s*\)'


def _initialiser(ftext, kind, algo_var):
    out = {}
    # sampling policy: string -> code
    pol = re.findall(r'if\s*\(\s*CompareStr\(\s*sampling_policy\s*,\s*"([^"]*)"\s*\)\s*\)\s*sampling_policy_code\s*=\s*(\d+)\s*;', ftext)
    if not pol or len(pol) != len(re.findall(r'CompareStr\(\s*sampling_policy\s*,', ftext)):
        raise TranslateError("engine.cpp (%s): the sampling policy dispatch is not a chain of `if (CompareStr(sampling_policy, \"x\")) sampling_policy_code = n;`" % kind)
    out["policy"] = [(s, int(c)) for s, c in pol]
    # engine option: string -> class; is_stochastic
    opt = re.findall(r'if\s*\(\s*CompareStr\(\s*option\s*,\s*"([^"]*)"\s*\)\s*\)\s*\{\s*%s\s*=\s*new\s+(\w+)\s*\(\s*\)\s*;' % algo_var, ftext)
    sto = re.findall(r'bool\s+is_stochastic\s*=\s*\(([^;]*)\)\s*;', ftext)
    if not opt or len(sto) != 1:
        raise TranslateError("engine.cpp (%s): option dispatch or is_stochastic not recognised" % kind)
    disj = [d.strip() for d in sto[0].split("||")]
    sto_opts = []
    for d in disj:
        mm = re.fullmatch(r'CompareStr\(\s*option\s*,\s*"([^"]*)"\s*\)', d)
        if not mm:
            raise TranslateError("engine.cpp (%s): is_stochastic is not a disjunction of option tests" % kind)
        sto_opts.append(mm.group(1))
    if len(re.findall(r'CompareStr\(\s*option\s*,', ftext)) != len(opt) + len(sto_opts):
        raise TranslateError("engine.cpp (%s): the option is tested somewhere else too" % kind)
    out["options"] = opt
    out["stochastic"] = sto_opts
    # init_state_processing: branches
    lines = ftext.split("\n")
    heads = [i for i, l in enumerate(lines) if "CompareStr(init_state_processing" in l.replace(" ", "").replace("CompareStr(init", "CompareStr(init")]
    heads = [i for i, l in enumerate(lines) if re.search(r'CompareStr\(\s*init_state_processing\s*,', l)]
    if not heads:
        raise TranslateError("engine.cpp (%s): no init_state_processing dispatch" % kind)
    branches = []
    for k, i in enumerate(heads):
        l = lines[i].strip()
        mm = re.fullmatch(r'(?:else\s+)?if\s*\((.*)\)', l)
        if not mm or (k == 0) != (not l.startswith("else")):
            raise TranslateError("engine.cpp (%s): an init_state_processing test is not the head of an if / else-if branch" % kind)
        sel = []
        for d in [x.strip() for x in mm.group(1).split("||")]:
            m1 = re.fullmatch(CMP, d)
            m2 = re.fullmatch(r'\(\s*(!?)\s*is_stochastic\s*&&\s*' + CMP + r'\s*\)', d)
            if m1 and m1.group(1) == "init_state_processing":
                sel.append((m1.group(2), 0))
            elif m2 and m2.group(2) == "init_state_processing":
                sel.append((m2.group(3), 2 if m2.group(1) else 1))
            else:
                raise TranslateError("engine.cpp (%s): unrecognised init_state_processing condition `%s`" % (kind, d))
        end = heads[k + 1] if k + 1 < len(heads) else next((j for j in range(i + 1, len(lines)) if lines[j].strip() == "else"), None)
        if end is None:
            raise TranslateError("engine.cpp (%s): the init_state_processing chain has no final else" % kind)
        body = "\n".join(lines[i + 1:end])
        acts = [a for a, pat in ((1, r'\bPoissonSample\s*\('), (2, r'\bfloor\s*\('), (3, r'\bGenerateStochasticDistribution\s*\(')) if re.search(pat, body)]
        if len(acts) > 1:
            raise TranslateError("engine.cpp (%s): an init_state_processing branch does several things" % kind)
        branches.append((sel, acts[0] if acts else 0, bool(re.search(r'\bSpeciesFirstToMeshFirstArray\s*\(', body))))
    out["modes"] = branches
    return out


def _boundary(ftext):
    rows = re.findall(r'if\s*\(\s*CompareStr\(\s*boundary_conditions_(\w)\s*,\s*"([^"]*)"\s*\)\s*\)\s*boundary_conditions\[(\d)\]\s*=\s*(\d+)\s*;', ftext)
    if not rows or len(rows) != len(re.findall(r'CompareStr\(\s*boundary_conditions_', ftext)):
        raise TranslateError("engine.cpp: the boundary condition dispatch is not a chain of `if (CompareStr(boundary_conditions_a, \"x\")) boundary_conditions[i] = n;`")
    return [(a, s, int(i), int(v)) for a, s, i, v in rows]


def _switch(path, name):
    text = _strip_comments(path.read_text(encoding="utf-8", errors="replace"))
    m = list(re.finditer(r'void\s+SamplingStep\s*\(\s*\)', text))
    if len(m) != 1:
        raise TranslateError("%s: SamplingStep not found exactly once" % name)
    body = text[m[0].end():]
    sw = re.search(r'switch\s*\(\s*sampling_policy_code\s*\)\s*\{(.*?)\}\s*;?\s*\}', body, flags=re.S)
    if not sw:
        raise TranslateError("%s: SamplingStep is not a switch over sampling_policy_code" % name)
    cases = re.findall(r'case\s+(\d+)\s*:\s*(?:(\w+)\s*\(\s*\)\s*;)?\s*break\s*;', sw.group(1))
    if not cases or len(cases) != len(re.findall(r'\bcase\b', sw.group(1))) or "default" in sw.group(1):
        raise TranslateError("%s: a case of SamplingStep is not `case n : f(); break;`" % name)
    return [(int(c), f) for c, f in cases]


def extract(repo=None):
    root = (Path(repo) if repo else REPO) / "src" / "strengths"
    src = root / "engines" / "strengths_engine" / "src"
    try:
        data = _python(root)
        cpp = _strip_comments((src / "engine.cpp").read_text(encoding="utf-8", errors="replace"))
        grid = _function_text(cpp, "engineexport_initialize_grid")
        graph = _function_text(cpp, "engineexport_initialize_graph")
        data["grid"] = _initialiser(grid, "grid", "global_grid_algo")
        data["graph"] = _initialiser(graph, "graph", "global_graph_algo")
        data["boundary"] = _boundary(grid)
        if re.search(r'CompareStr\(\s*boundary_conditions_', graph):
            raise TranslateError("engine.cpp: the graph initialiser tests boundary conditions")
        data["switch_grid"] = _switch(src / "SimulationAlgorithm3DBase.hpp", "SimulationAlgorithm3DBase.hpp")
        data["switch_graph"] = _switch(src / "SimulationAlgorithmGraphBase.hpp", "SimulationAlgorithmGraphBase.hpp")
    except (OSError, SyntaxError) as e:
        raise TranslateError(str(e))
    return data


# ------------------------------------------------------------------ Coq text
def _cp(s):
    return "[" + "; ".join(str(ord(c)) for c in s) + "]"


def _strs(l):
    return "[" + "; ".join(_cp(x) for x in l) + "]"


def emit(d):
    o = ["(* GENERATED on every run by harness/translate_enums.py from /repo's rdscript.py, rdgridspace.py, rdoutput.py, engine_collection.py,",
         "   engine.cpp and the two SimulationAlgorithm*Base.hpp: the string enumerations of the three layers.  Do not edit. *)",
         "From Coq Require Import NArith List Bool.", "Import ListNotations.", "Open Scope N_scope.", ""]

    def deff(name, typ, body, comment):
        o.append("Definition %s : %s := %s.   (* %s *)\n" % (name, typ, body, comment))
    S = "list (list N)"
    deff("code_script_policies", S, _strs(d["script_policies"]), "RDScript.sampling_policy: " + " ".join(d["script_policies"]))
    deff("code_script_modes", S, _strs(d["script_modes"]), "RDScript.init_state_processing: " + " ".join(d["script_modes"]))
    deff("code_grid_axes", S, _strs(d["grid_axes"]), "set_boundary_conditions: " + " ".join(d["grid_axes"]))
    deff("code_grid_conditions", S, _strs(d["grid_conditions"]), " ".join(d["grid_conditions"]))
    deff("code_lookup_policies", S, _strs(d["lookup_policies"]), "get_sample_index: " + " ".join(d["lookup_policies"]))
    deff("code_engines", "list (list N * bool)", "[" + "; ".join("(%s, %s)" % (_cp(s), "true" if r else "false") for s, r in d["engines"]) + "]",
         "engine_collection.py: option, requires_molecules")
    for kind in ("grid", "graph"):
        g = d[kind]
        deff("code_%s_policy" % kind, "list (list N * N)", "[" + "; ".join("(%s, %d)" % (_cp(s), c) for s, c in g["policy"]) + "]",
             "engine.cpp initialize_%s: sampling policy -> code" % kind)
        deff("code_%s_options" % kind, "list (list N * list N)", "[" + "; ".join("(%s, %s)" % (_cp(s), _cp(c)) for s, c in g["options"]) + "]",
             "option -> algorithm class: " + " ".join("%s=%s" % x for x in g["options"]))
        deff("code_%s_stochastic" % kind, S, _strs(g["stochastic"]), "is_stochastic")
        deff("code_%s_modes" % kind, "list (list (list N * N) * N * bool)",
             "[" + "; ".join("([%s], %d, %s)" % ("; ".join("(%s, %d)" % (_cp(s), gd) for s, gd in sel), act, "true" if tr else "false") for sel, act, tr in g["modes"]) + "]",
             "init_state_processing branches: selectors (string, guard 0 always / 1 stochastic / 2 deterministic), action 0 keep / 1 Poisson / 2 floor / 3 redistribute, transposed")
        deff("code_%s_switch" % kind, "list (N * list N)", "[" + "; ".join("(%d, %s)" % (c, _cp(f)) for c, f in d["switch_" + kind]) + "]",
             "SamplingStep: " + " ".join("%d=%s" % (c, f or "-") for c, f in d["switch_" + kind]))
    deff("code_boundary", "list (list N * list N * N * N)", "[" + "; ".join("(%s, %s, %d, %d)" % (_cp(a), _cp(s), i, v) for a, s, i, v in d["boundary"]) + "]",
         "engine.cpp initialize_grid: axis letter, string, index, value")
    return "\n".join(o)


STATUS = {"error": None}


def regenerate():
    try:
        text = emit(extract())
    except TranslateError as e:
        STATUS["error"] = str(e)
        return STATUS["error"]
    if not OUT.exists() or OUT.read_text() != text:
        OUT.write_text(text)
    STATUS["error"] = None
    return None


if __name__ == "__main__":
    print(emit(extract()))
